"""C19 Model values: equality, ordering and hashing are mutually coherent."""
import collections
import re

from mirlib import op_place, path_str, AnchorMissing, decision_paths, describe_call, describe_operand, describe_rvalue, dom_guards, guards, _suffix_match
from rules.common import where
from mirlib import switch_desc as switch_desc_

META = {
    "explanation": (
        "C19: Value::compare / eq / hash are hand-written case tables. The shape of each table (which cells are constants, which are "
        "computed, by what) is finite and extracted from the MIR by enumerating decision paths over the two discriminants; the algebraic "
        "laws are then checked cell-wise. R1 antisymmetry of constant cells, const/computed pairing, diagonal, and acyclicity of the "
        "kind-level tournament; R2 symmetry of the constant-false cells of eq and coherence with compare (a pair eq declares unequal must "
        "never compare Equal); R3 hashing: kinds that can be equal write the same tag and normal form, and the float arm normalises every "
        "class eq identifies; R4 one-sided truncating casts in mirrored computed cells; R5 the same laws for Item and Attr. R8 Text defines ==, the order and the hash through its string view alone."
),
    "does_not_decide": "value-level transitivity inside computed cells (needs arithmetic reasoning); the f64::EPSILON tolerance is reported as a known finding, not decided in general",
}

M = "swimos_model"
REV = {"Less": "Greater", "Greater": "Less", "Equal": "Equal"}


def table(body, first="self", second="other"):
    """cells[(A, B)] = dict(consts=set of constant results, computed=set of callee names whose result is returned,
    calls=set of all callees, casts=set of cast kinds)"""
    exits = set(body.exits())
    paths = decision_paths(body, 0, lambda x: x in exits, max_paths=400000)
    cells = collections.defaultdict(lambda: {"consts": set(), "computed": set(), "calls": set(), "casts": set(), "returns_arg": False})
    # `match (self, other) { (A, B) => .. }` matches on the components of a pair built from the two: the same tests under another name
    alias = {}
    for sb in range(body.n):
        if body.is_cleanup(sb) or body.term(sb)["k"] != "switch":
            continue
        si = body.switch_info(sb)
        if si and si.get("kind") == "disc":
            d_ = switch_desc_(body, sb) or ""
            nm_ = d_[5:-1].strip("(*)") if d_.startswith("disc(") else None
            if nm_ in (first, second):
                alias[path_str(body, body.resolve(si["place"]))] = nm_
    for cons, end, trail in paths:
        cons = dict(cons)
        for k_, nm_ in alias.items():
            if k_ in cons and nm_ not in cons:
                cons[nm_] = cons[k_]
        a = cons.get(first)
        bb = cons.get(second)
        if a is None:
            continue
        cell = cells[(a, bb if bb is not None else "*")]
        # what the function answers on this path: the value the return place holds at the end, followed through the locals it was copied from (a result
        # produced by a spliced helper arrives through the helper's own return local)
        env = {}
        for blk in trail:
            for s in body.stmts(blk):
                if s[0] != "A":
                    continue
                if not s[1][1]:
                    rv = s[2]
                    src = op_place(rv[1]) if rv[0] == "use" else None
                    if src is not None and not src[1] and src[0] in env:
                        env[s[1][0]] = env[src[0]]
                    else:
                        d = describe_rvalue(body, rv)
                        if d.startswith("Ordering::") and d.endswith("()"):
                            env[s[1][0]] = ("c", d[len("Ordering::"):-2])
                        elif d in ("True", "False"):
                            env[s[1][0]] = ("c", d)
                        else:
                            env[s[1][0]] = ("x", d[:60])
                if s[2][0] == "cast":
                    k = s[2][1]
                    if k.startswith("FloatToInt") or k.startswith("IntToFloat") or k.startswith("IntToInt"):
                        cell["casts"].add(k.split("(")[0])
            cl = body.call_at(blk)
            if cl is not None:
                nm = cl.via_name or cl.name or "?"
                cell["calls"].add(nm)
                if cl.dest is not None and not cl.dest[1]:
                    env[cl.dest[0]] = ("x", nm)
        res = env.get(0)
        if res is not None:
            cell["consts" if res[0] == "c" else "computed"].add(res[1])
    return cells



def float_profile(b, yes):
    """What the Float64/Float64 cell of `eq` (yes = "True") or `compare` (yes = "Equal") identifies beyond identical bit patterns: all NaNs with each
    other, and +0.0 with -0.0. NaNs: under `is_nan(self)` the answer is `yes` for an `other` that is NaN too (a constant under the second test, or the
    second test's result itself). Zeros: the remaining values are compared as IEEE numbers (`==`, `<`, partial_cmp, a difference) and not as bit
    patterns (to_bits, total_cmp, byte images). Returns (nans, zeros) with None for 'mixed forms: not decided'."""
    PAY = "<Float64Value>.0"
    ff = []
    for blk in range(b.n):
        if b.is_cleanup(blk):
            continue
        ks = [(d, l) for d, l, _ in dom_guards(b, blk) if d.startswith("disc(")]
        if any(l == "Float64Value" and "self" in d for d, l in ks) and any(l == "Float64Value" and "other" in d for d, l in ks):
            ff.append(blk)
    if not ff:
        raise AnchorMissing("%s: no Float64/Float64 cell" % b.defpath)
    bitwise = ieee = nans = False
    for blk in ff:
        g = [(d, l) for d, l, _ in dom_guards(b, blk) if not d.startswith("disc(")]
        nan_self = any(d.startswith("is_nan(self") and l == "true" for d, l in g)
        nan_other = any(d.startswith("is_nan(other") and l == "true" for d, l in g)
        cl = b.call_at(blk)
        if cl is not None:
            nm = cl.via_name or cl.name or ""
            args = [describe_operand(b, a) for a in cl.args]
            if nm in ("to_bits", "total_cmp", "to_ne_bytes", "to_be_bytes", "to_le_bytes", "transmute"):
                bitwise = True
            elif nm in ("eq", "ne", "partial_cmp", "lt", "le", "gt", "ge", "abs", "max", "min") and args and any(PAY in a and "to_bits" not in a for a in args[:1]):
                ieee = True
            if nm == "is_nan" and cl.dest[0] == 0 and not cl.dest[1] and ((nan_self and args and args[0].startswith("other")) or (nan_other and args and args[0].startswith("self"))):
                nans = True
        descs = [describe_rvalue(b, s_[2]) for s_ in b.stmts(blk) if s_[0] == "A"]
        for d in descs:
            m_ = re.match(r"^(Eq|Ne|Lt|Le|Gt|Ge)\((.*)\)$", d)
            if m_ and PAY in m_.group(2) and "to_bits" not in m_.group(2) and "total_cmp" not in m_.group(2):
                ieee = True
        if nan_self and nan_other:
            for s_ in b.stmts(blk):
                if s_[0] == "A" and s_[1][0] == 0 and not s_[1][1] and describe_rvalue(b, s_[2]) in ("True", "Ordering::Equal()") and yes in describe_rvalue(b, s_[2]):
                    nans = True
    zeros = None if (bitwise and ieee) else (ieee and not bitwise)
    return nans, zeros

def run(ctx):
    m = ctx.crate(M)
    cmp_b = ctx.saw(m.fn(name="compare", self_adt="value::Value"))
    eq_b = ctx.saw(m.fn(name="eq", self_adt="value::Value", trait="core::cmp::PartialEq"))
    hash_b = ctx.saw(m.fn(name="hash", self_adt="value::Value", trait="core::hash::Hash"))
    kinds = [v["name"] for v in m.adt("value::Value")["variants"]]
    if len(kinds) < 12:
        raise AnchorMissing("Value has %d variants, expected >= 12" % len(kinds))
    cells = table(cmp_b)
    eqc = table(eq_b)
    loc = where(cmp_b)

    def cell(t, a, b):
        if (a, b) in t:
            return t[(a, b)]
        return t.get((a, "*"))

    with ctx.rule("C19.R1", "T10", "Value::compare: antisymmetry of constant cells, pairing, diagonal, kind tournament", floor=100) as r:
        for a in kinds:
            for b in kinds:
                if (a, b) not in cells:
                    r.bad("compare/%s-%s/missing" % (a, b), loc, "no decision path for this pair of kinds")
        less = collections.defaultdict(set)
        for a in kinds:
            for b in kinds:
                c1, c2 = cells.get((a, b)), cells.get((b, a))
                if c1 is None or c2 is None:
                    continue
                # a cell is "constant" when every path through it returns the same literal and nothing is computed
                const_only1 = len(c1["consts"]) == 1 and not c1["computed"] and not (c1["calls"] - {"deref"})
                const_only2 = len(c2["consts"]) == 1 and not c2["computed"] and not (c2["calls"] - {"deref"})
                if a == b:
                    r.check(bool(c1["computed"]) or c1["consts"] == {"Equal"} or "Equal" in c1["consts"], "compare/%s-%s/diagonal" % (a, b), loc,
                            "diagonal cell is computed (%s) or Equal" % sorted(c1["computed"] | c1["consts"]), "diagonal cell can never be Equal: %s" % sorted(c1["consts"]))
                    continue
                if const_only1 and len(c1["consts"]) == 1:
                    o = next(iter(c1["consts"]))
                    r.check(const_only2 and c2["consts"] == {REV[o]}, "compare/%s-%s/antisymmetric" % (a, b), loc,
                            "compare(%s, %s) = %s and compare(%s, %s) = %s" % (a, b, o, b, a, REV[o]),
                            "compare(%s, %s) is always %s but compare(%s, %s) yields %s%s: the order is not antisymmetric" % (a, b, o, b, a, sorted(c2["consts"]), " or computed" if c2["computed"] else ""))
                    if o == "Less":
                        less[a].add(b)
                    elif o == "Greater":
                        less[b].add(a)
                elif const_only1 != const_only2 and (const_only1 or const_only2):
                    r.bad("compare/%s-%s/pairing" % (a, b), loc, "compare(%s, %s) is %s but compare(%s, %s) is %s" % (a, b, "constant" if const_only1 else "computed", b, a, "constant" if const_only2 else "computed"))
                else:
                    r.ok("compare/%s-%s/computed-pair" % (a, b), loc, "both directions are computed (%s | %s)" % (sorted(c1["computed"] | c1["consts"])[:3], sorted(c2["computed"] | c2["consts"])[:3]))
        # acyclic tournament on constant relations
        color = {}
        cyc = []

        def dfs(u, stack):
            color[u] = 1
            for v in less.get(u, ()):
                if color.get(v) == 1:
                    cyc.append(stack + [u, v])
                elif v not in color:
                    dfs(v, stack + [u])
            color[u] = 2
        for k in kinds:
            if k not in color:
                dfs(k, [])
        r.check(not cyc, "compare/kind-tournament-acyclic", loc, "the constant cells induce an acyclic order over kinds", "cycle among kinds: %s" % (cyc[:1],))

    with ctx.rule("C19.R2", "T10", "Value::eq: symmetric constant-false cells; coherent with compare", floor=100) as r:
        for a in kinds:
            for b in kinds:
                e1, e2 = cell(eqc, a, b), cell(eqc, b, a)
                if e1 is None or e2 is None:
                    r.bad("eq/%s-%s/missing" % (a, b), where(eq_b), "no decision path for this pair")
                    continue
                f1 = e1["consts"] == {"False"} and not e1["computed"]
                f2 = e2["consts"] == {"False"} and not e2["computed"]
                if a < b:
                    r.check(f1 == f2, "eq/%s-%s/symmetric" % (a, b), where(eq_b), "eq(%s, %s) and eq(%s, %s) are both %s" % (a, b, b, a, "constant false" if f1 else "computed"),
                            "eq(%s, %s) is %s but eq(%s, %s) is %s: equality is not symmetric" % (a, b, "constant false" if f1 else "computed", b, a, "constant false" if f2 else "computed"))
                c = cells.get((a, b))
                if c is None:
                    continue
                if f1:
                    # (any answer that is not a constant can be Equal: cmp, partial_cmp, a helper, `partial.unwrap_or(Equal)`)
                    may_equal = "Equal" in c["consts"] or bool(c["computed"])
                    r.check(not may_equal, "coherence/%s-%s/unequal-never-compares-Equal" % (a, b), loc,
                            "eq(%s, %s) is constant false and compare never yields Equal" % (a, b),
                            "eq(%s, %s) is constant false but compare(%s, %s) can yield Equal (%s): two unequal values compare as equal" % (a, b, a, b, sorted(c["consts"] | c["computed"])))
                elif a != b:
                    can_equal = "Equal" in c["consts"] or bool(c["computed"])
                    r.check(can_equal, "coherence/%s-%s/equal-can-compare-Equal" % (a, b), loc, "values of kinds %s/%s can be equal and compare can yield Equal" % (a, b),
                            "eq(%s, %s) can be true but compare never yields Equal" % (a, b))
        # the float cell: eq and compare must identify the same special values (all NaNs with each other, +0.0 with -0.0)
        eq_nan, eq_zero = float_profile(eq_b, "True")
        cmp_nan, cmp_zero = float_profile(cmp_b, "Equal")
        r.check(eq_nan == cmp_nan, "coherence/Float64Value-Float64Value/NaNs-identified-alike", where(eq_b), "eq and compare both %s two NaNs" % ("identify" if eq_nan else "tell apart"),
                "compare %s any two NaNs but eq %s: two NaNs with different bit patterns compare %s" % ("yields Equal for" if cmp_nan else "tells apart", "says they are equal" if eq_nan else "tells them apart", "Equal while == is false" if cmp_nan else "unequal while == is true"))
        if eq_zero is None or cmp_zero is None:
            r.ok("coherence/Float64Value-Float64Value/zeros-identified-alike", where(eq_b), "numeric and bitwise comparisons are mixed in one of the two: not decided")
        else:
            r.check(eq_zero == cmp_zero, "coherence/Float64Value-Float64Value/zeros-identified-alike", where(eq_b), "eq and compare both %s +0.0 and -0.0" % ("identify" if eq_zero else "tell apart"),
                    "compare %s +0.0 and -0.0 but eq %s: the order says Equal exactly when == does no longer holds for the two zeros" % ("identifies" if cmp_zero else "tells apart", "identifies them" if eq_zero else "compares bit patterns and tells them apart"))
        f = cells.get(("Float64Value", "Float64Value"))
        r.check(f is not None and "abs" not in f["calls"], "coherence/Float64Value-Float64Value/exact", loc, "float/float comparison is exact",
                "compare(Float64, Float64) treats |x - y| < f64::EPSILON as Equal while eq is exact: 1e-20 and 2e-20 are unequal but compare Equal, and the relation is not transitive")

    with ctx.rule("C19.R3", "T5", "Value::hash: kinds that can be equal write the same tag and normal form; floats normalised like eq", floor=12) as r:
        tags = collections.defaultdict(set)
        forms = collections.defaultdict(set)
        for c in hash_b.calls:
            g = dom_guards(hash_b, c.block)
            k = [l for d, l, _ in g if d == "disc(self)"]
            if not k:
                continue
            if c.via_name == "write_u8":
                d = describe_operand(hash_b, c.args[1])
                if d.isdigit():
                    tags[k[0]].add(int(d))
            elif c.via_name in ("write_i128", "write_u64", "hash", "write_u8"):
                forms[k[0]].add(c.via_name)
            if c.via_name in ("write_i128", "write_u64", "hash"):
                forms[k[0]].add(c.via_name)
        for k in kinds:
            r.check(bool(tags.get(k)), "hash/%s/tag" % k, where(hash_b), "%s writes tag(s) %s then %s" % (k, sorted(tags.get(k, [])), sorted(forms.get(k, []))), "%s writes no kind tag" % k)
        for a in kinds:
            for b in kinds:
                if a >= b:
                    continue
                e = cell(eqc, a, b)
                if e is None or (e["consts"] == {"False"} and not e["computed"]):
                    continue
                common = tags[a] & tags[b]
                r.check(bool(common), "hash/%s-%s/shared-tag" % (a, b), where(hash_b), "%s and %s can be equal and share tag %s" % (a, b, sorted(common)),
                        "%s and %s can be equal but never write the same tag (%s vs %s): equal values hash differently" % (a, b, sorted(tags[a]), sorted(tags[b])))
                r.check(bool(forms[a] & forms[b]), "hash/%s-%s/shared-form" % (a, b), where(hash_b), "both use %s" % sorted(forms[a] & forms[b]), "%s hashes with %s, %s with %s" % (a, sorted(forms[a]), b, sorted(forms[b])))
        # kinds that choose between two normal forms (small integer / big integer) must draw the line at the same place: the
        # narrowing conversion that decides is the one matching the width that is written (write_i128 <-> to_i128), for every such kind
        import re as _re
        thr = collections.defaultdict(set)
        for c in hash_b.calls:
            if _re.match(r"^to_[iu](8|16|32|64|128|size)$", c.name or ""):
                k = [l for d, l, _ in dom_guards(hash_b, c.block) if d == "disc(self)"]
                if k:
                    thr[k[0]].add(c.name)
        writers = {k: {f for f in forms[k] if f.startswith("write_i") or f.startswith("write_u6") or f.startswith("write_u1")} for k in kinds}
        multi = [k for k in kinds if len(tags.get(k, ())) > 1]
        for k in multi:
            want = {"to_" + w[len("write_"):] for w in writers[k] if w != "write_u8"}
            r.check(thr[k] == want and len(want) == 1, "hash/%s/threshold=width-written" % k, where(hash_b), "%s chooses its normal form with %s and writes %s" % (k, sorted(thr[k]), sorted(writers[k])),
                    "%s decides between its normal forms with %s but the small form is written with %s: integers between the two ranges are hashed in the big form while equal values of other kinds are hashed in the small form (equal values, different hashes)" % (k, sorted(thr[k]), sorted(writers[k])))
        for a in multi:
            for b in multi:
                if a < b:
                    r.check(thr[a] == thr[b], "hash/%s-%s/same-threshold" % (a, b), where(hash_b), "both draw the small/big line with %s" % sorted(thr[a]), "%s uses %s, %s uses %s: a value between the two thresholds hashes differently in the two kinds although they are equal" % (a, sorted(thr[a]), b, sorted(thr[b])))
        fl = [c for c in hash_b.calls if c.name == "to_bits"]
        nan = [c for c in hash_b.calls if c.name == "is_nan"]
        eq_nan, eq_zero = float_profile(eq_b, "True")
        if eq_nan:
            r.check(bool(nan), "hash/Float64Value/NaN-normalised", where(hash_b), "NaN (all NaNs are eq) is hashed as one value", "all NaNs are equal under eq but their bit patterns are hashed: equal values hash differently")
        else:
            r.ok("hash/Float64Value/NaN-normalised", where(hash_b), "eq tells NaNs with different bit patterns apart: no normal form is required of the hash")
        zero_norm = False
        for c in fl:
            g = guards(hash_b, c.block)
            zero_norm = zero_norm or any(("0.0" in d or "Eq(" in d and "0" in d) for d, l, _ in g if "is_nan" not in d)
        r.check(zero_norm or eq_zero is False, "hash/Float64Value/zero-normalised", where(hash_b), "+0.0 and -0.0 (eq) are hashed alike",
                "Float64Value(0.0) == Float64Value(-0.0) under eq, but the bit patterns are hashed: equal values hash differently")

    with ctx.rule("C19.R4", "T5", "mirrored computed cells do not truncate in one direction only", floor=20) as r:
        for a in kinds:
            for b in kinds:
                if a >= b:
                    continue
                c1, c2 = cells.get((a, b)), cells.get((b, a))
                if not c1 or not c2 or not (c1["computed"] or len(c1["consts"]) > 1 or c2["computed"] or len(c2["consts"]) > 1):
                    continue
                t1 = "FloatToInt" in c1["casts"]
                t2 = "FloatToInt" in c2["casts"]
                r.check(t1 == t2, "compare/%s-%s/truncation-symmetric" % (a, b), loc, "no one-sided float->int truncation",
                        "compare(%s, %s) %s the float to an integer but compare(%s, %s) %s: e.g. 1 vs 1.5 is Equal one way and Greater/Less the other" % (
                            a, b, "truncates" if t1 else "does not truncate", b, a, "truncates" if t2 else "does not truncate"))

    with ctx.rule("C19.R4b", "T5", "a fallible narrowing to a signed integer must not fall back to one constant (the value may be too large or too small)", floor=2) as r:
        SIGNED = ("to_i8", "to_i16", "to_i32", "to_i64", "to_i128", "to_isize")
        n = 0
        for c in cmp_b.calls:
            tgt = c.callee.get("self_ty") or c.callee.get("arg0_ty") or ""
            narrow_signed = c.name in SIGNED or (c.via_name == "try_from" and tgt in ("i8", "i16", "i32", "i64", "i128", "isize"))
            narrow_unsigned = c.name in ("to_u8", "to_u16", "to_u32", "to_u64", "to_u128", "to_usize", "to_biguint") or (c.via_name == "try_from" and (tgt in ("u8", "u16", "u32", "u64", "u128", "usize") or "BigUint" in tgt))
            if not (narrow_signed or narrow_unsigned):
                continue
            n += 1
            g = dom_guards(cmp_b, c.block)
            a = [l for d, l, _ in g if d == "disc(self)"]
            bb = [l for d, l, _ in g if d == "disc(other)"]
            tag = "%s-%s/%s" % (a[0] if a else "?", bb[0] if bb else "?", c.name)
            fail = None
            for si in cmp_b.result_switches(c):
                ve = cmp_b.variant_edges(si["block"])
                if ve:
                    fail = ve.get("None") if "None" in ve else ve.get("Err")
            if fail is None:
                r.ok("compare/%s/narrowing-no-fallback" % tag, loc, "the conversion's failure is not turned into a constant")
                continue
            consts = []
            for i, j, p, rv, line in cmp_b.assigns():
                if p[0] == 0 and not p[1] and cmp_b.dominates(fail, i):
                    d = describe_rvalue(cmp_b, rv)
                    if d.startswith("Ordering::"):
                        sign_aware = any(("is_negative" in dd or "is_positive" in dd or "sign" in dd) for dd, l, _ in dom_guards(cmp_b, i) if cmp_b.dominates(fail, _))
                        consts.append((d, sign_aware))
            if narrow_signed:
                r.check(all(sa for _, sa in consts) or not consts, "compare/%s/signed-narrowing-fallback-sign-aware" % tag, loc,
                        "fallback after %s is decided by the sign of the value" % c.name,
                        "when %s fails the comparison returns the constant %s whatever the sign: a value below the target's minimum is ordered like one above its maximum (antisymmetry and transitivity break for such values)" % (c.name, [d for d, _ in consts]))
            else:
                r.ok("compare/%s/unsigned-narrowing" % tag, loc, "narrowing to an unsigned type fails only for negative values: a single fallback (%s) suffices" % [d for d, _ in consts])
        if n < 2:
            raise AnchorMissing("expected narrowing conversions in Value::compare, found %d" % n)

    with ctx.rule("C19.R4c", "T7", "no comparison is made on a clamped operand: a narrowing that can fail is never replaced by a substitute value that is then compared", floor=4) as r:
        # `i64::try_from(u).unwrap_or(i64::MAX)` followed by `lhs.cmp(&rhs)` makes every value beyond the range equal to the bound: compare says Equal
        # for values eq (and hash) distinguish, and the order is no longer transitive. The helpers Value::compare calls are part of the table.
        prog = ctx.program(M)
        cone = [cmp_b]
        seen = {cmp_b.defpath}
        for b in list(cone):
            for c in b.calls:
                for cb in prog.callee_bodies(c):
                    if cb.defpath not in seen and cb.crate.name == M and "::tests" not in cb.defpath:
                        seen.add(cb.defpath)
                        cone.append(ctx.saw(cb))
            for cb in m.closures_of(b.defpath):
                if cb.defpath not in seen:
                    seen.add(cb.defpath)
                    cone.append(cb)
        NARROW = ("try_from", "try_into", "to_i8", "to_i16", "to_i32", "to_i64", "to_i128", "to_isize", "to_u8", "to_u16", "to_u32", "to_u64", "to_u128", "to_usize")
        SUBST = ("unwrap_or", "unwrap_or_else", "unwrap_or_default", "map_or", "map_or_else")
        helpers = [b for b in cone if b is not cmp_b and "{closure" not in b.defpath]
        r.check(len(helpers) >= 4, "compare/helpers-in-scope", loc, "%d helper functions of Value::compare analysed (%s)" % (len(helpers), ", ".join(sorted(b.defpath.split("::")[-1] for b in helpers))[:120]),
                "the comparison helpers of Value::compare were not found (%d)" % len(helpers))
        for b in cone:
            for c in b.calls:
                if c.via_name not in ("cmp", "partial_cmp") and c.name not in ("cmp", "partial_cmp"):
                    continue
                bad = []
                for a in c.args:
                    for s_ in b.sources(a, stop_at_calls=False):
                        if s_[0] == "call" and s_[1].name in SUBST:
                            inner = b.sources(s_[1].args[0], stop_at_calls=False)
                            if any(x[0] == "call" and (x[1].name in NARROW or x[1].via_name in NARROW) for x in inner):
                                bad.append(s_[1])
                key = "%s/cmp@%s/operands-not-clamped" % (b.defpath.split("::")[-1] if b is not cmp_b else "compare", c.line)
                key = "%s/cmp#%d/operands-not-clamped" % ((b.defpath.split("swimos_model::")[-1]) if b is not cmp_b else "compare", sum(1 for y in b.calls if (y.name in ("cmp", "partial_cmp")) and y.line < c.line))
                r.check(not bad, key, c.loc(), "the operands of this comparison are the values themselves (no substitute for a failed narrowing)",
                        "an operand of this comparison is `%s(..)` of a narrowing conversion: every value outside the target range is compared as if it were the substitute, so distinct values compare Equal (e.g. Int64Value(i64::MAX) and every UInt64Value above it) and the order is not transitive" % (bad[0].name if bad else "?"))
        # the sign test of a mixed signed/unsigned comparison: the helper decides by the sign before it compares in the unsigned domain
        for b in helpers:
            nm = b.defpath.split("::")[-1]
            mm = __import__("re").match(r"^cmp_([iu])(\d+)_([iu])(\d+)$", nm)
            if not mm or mm.group(1) == mm.group(3):
                continue
            sign_tests = [sb for sb in range(b.n) if not b.is_cleanup(sb) and b.term(sb)["k"] == "switch" and "Lt(" in switch_desc_(b, sb) and ", 0)" in switch_desc_(b, sb)]
            wide = "i%d" % (2 * max(int(mm.group(2)), int(mm.group(4))))
            widened = [1 for i, j, p_, rv, line in b.assigns() if rv[0] == "cast" and str(rv[1]).startswith("IntToInt") and b.locals[p_[0]] == wide and not p_[1]]
            # (or the conversion of the signed operand into the unsigned domain is a checked one whose failure - the negative case - is decided on its own)
            checked = False
            for c in b.calls:
                if (c.name in ("try_from", "try_into") or c.via_name in ("try_from", "try_into")):
                    for si in b.result_switches(c):
                        ve = b.variant_edges(si["block"]) or {}
                        if "Ok" in ve and "Err" in ve and ve["Ok"] != ve["Err"]:
                            checked = True
            r.check(bool(sign_tests) or len(widened) >= 2 or checked, "%s/sign-decided-first-or-both-widened" % nm, where(b),
                    "a negative signed operand is decided by its sign alone before the unsigned comparison" if sign_tests else "both operands are widened to %s before they are compared" % wide,
                    "%s neither tests the sign of its signed operand nor widens both operands to %s: the mixed comparison goes through a conversion that cannot represent every value" % (nm, wide))

    with ctx.rule("C19.R5", "T10", "Item and Attr: ordering consistent with the derived equality", floor=5) as r:
        it = ctx.saw(m.fn(name="compare", self_adt="item::Item"))
        ic = table(it)
        a, b = "ValueItem", "Slot"
        c1, c2 = ic.get((a, b)), ic.get((b, a))
        r.check(c1 and c2 and len(c1["consts"]) == 1 and not c1["computed"] and c2["consts"] == {REV[next(iter(c1["consts"]))]} and not c2["computed"], "Item/ValueItem-Slot/antisymmetric", where(it),
                "compare(ValueItem, Slot) and compare(Slot, ValueItem) are opposite constants", "Item::compare cross cells are %s / %s" % (c1, c2))
        for k in (a, b):
            c = ic.get((k, k))
            r.check(c is not None and (bool(c["computed"]) or "cmp" in c["calls"]), "Item/%s-%s/diagonal-computed" % (k, k), where(it), "same-kind items are compared by content")
        ss = ic.get((b, b))
        r.check(ss is not None and len([x for bx in [it] + list(m.closures_of(it.defpath)) for x in bx.calls if x.via_name == "cmp"]) >= 3, "Item/Slot/key-then-value", where(it), "slots are ordered by key, then by value (lexicographic, consistent with derived Eq on both fields)")
        for adt in ("item::Item", "attr::Attr"):
            pe = m.implements(adt, "core::cmp::PartialEq")
            hs = m.implements(adt, "core::hash::Hash")
            r.check(pe is not None and hs is not None and pe["derived"] == hs["derived"], adt.split("::")[-1] + "/eq-hash-both-derived", "-", "PartialEq and Hash are both derived (field-wise, so they agree with each other)",
                    "PartialEq and Hash of %s are not derived together" % adt)
        at = ctx.saw(m.fn(name="compare", self_adt="attr::Attr"))
        cm = [describe_operand(at, c.args[0]) for c in at.calls if c.via_name == "cmp"]
        r.check(len(cm) == 2 and cm[0].endswith(".name") and cm[1].endswith(".value"), "Attr/name-then-value", where(at), "attributes are ordered by name, then by value (both fields that derived Eq compares)",
                "Attr::compare compares %s" % cm)

    with ctx.rule("C19.R8", "T7", "Text - the leaf every name, key and text value is compared by - defines ==, the order and the hash through as_str() alone", floor=4) as r:
        # Value::Text, attribute names and slot keys all end in Text's own impls; they agree with each other exactly when all of them look at the
        # same projection of the representation (the string), never at the representation itself (inline array vs heap string, padding, length)
        md = ctx.crate("swimos_model")
        want = {"core::cmp::PartialEq>::eq": ("eq", 2), "core::cmp::Ord>::cmp": ("cmp", 2), "core::cmp::PartialOrd>::partial_cmp": (None, 2), "core::hash::Hash>::hash": ("hash", 1)}
        for suf, (op, n_) in sorted(want.items()):
            bs = [b for b in md.all_bodies() if b.defpath == "<swimos_model::text::Text as " + suf]
            if len(bs) != 1:
                raise AnchorMissing("impl of %s for Text" % suf)
            b = ctx.saw(bs[0])
            nm = suf.split("::")[-1]
            reps = [si for si in b.switches_on(lambda p, si: True) if si.get("kind") == "disc" and "TextInner" in (si.get("adt") or "")]
            ops = [c for c in b.calls if c.name in ("eq", "ne", "cmp", "partial_cmp", "hash", "lt", "le", "gt", "ge", "write", "hash_slice") and c.name != "as_str"]
            deleg = [c for c in ops if (c.self_adt or "").endswith("text::Text") and [describe_operand(b, a) for a in c.args[:2]] == ["self", "other"]]
            PROJ = ("as_str(", "as_bytes(", "as_ref(", "borrow(", "deref(")
            def through(d):
                # the operand is the string view of self / other (possibly viewed again as bytes), never a part of the representation
                return any(p_ in d for p_ in PROJ) and "<Small>" not in d and "<Large>" not in d and ".0" not in d.replace("(self)", "").replace("(other)", "")
            via_str = [c for c in ops if all(through(describe_operand(b, a)) for a in c.args[:n_])]
            r.check(not reps and len(ops) >= 1 and all(c in deleg or c in via_str for c in ops), "Text::%s/through-as_str" % nm, where(b), "%s looks at as_str() only (%s)" % (nm, ", ".join(sorted({c.name for c in ops}))),
                    "Text::%s looks at the representation (%s): two texts that are == as strings can compare or hash differently, or two different strings compare Equal (e.g. `key` and `key\\0` in the zero-padded inline form) - "
                    "and with them Value::Text, attribute names and slot keys" % (nm, "match on TextInner" if reps else [(c.name, [describe_operand(b, a)[:30] for a in c.args[:2]]) for c in ops if c not in deleg and c not in via_str][:2]))
