"""C05 Persisted state is never older than what was published."""
from mirlib import edge_label, switch_desc, AnchorMissing, decision_paths, describe_operand, describe_place, describe_rvalue, dom_guards, op_place, path_str, _suffix_match
from rules.common import id_allocation_rule, aggregates, callers_by_name, crate_aggregates, owner_def, where

META = {
    "explanation": (
        "C05: the ordering clause 'handed to the store before it was sent' is decided for every history: "
        "R1 persist_response dominates handle_event/schedule_write in write_task's Event arm and its error edge leaves "
        "the function; R2 closes the send path (who may call push_write / handle_event / Uplinks::push, who constructs "
        "data-carrying WriteActions); R3 persist_response's variant table routes every payload-carrying response to "
        "put_value/apply_map; R4 apply_map's operation table; R5 initialisers finish with InitComplete after the stored "
        "entries; R6 the agent acks StoreInitialized only after initialize succeeded; R7 store ids are None only on the "
        "transient edge. R9 id allocation discipline incl. the counter's merge operator and restore id = persist id = returned id; R10 the RocksDB store applies each operation to that lane's own entries (operation table, clear range)."
),
    "does_not_decide": "that either store returns on restart what it was handed for all histories (C13; R10 checks the operation table and the clear range only), crash atomicity inside RocksDB, the agent-side fold of the init stream",
    "assumptions": ["NodePersistence::put_value/update_map/... are synchronous: when they return Ok the store has the data"],
}

RT = "swimos_runtime"


def run(ctx):
    rt = ctx.crate(RT)
    prog = ctx.program(RT)

    # ---- R1 ordering ----------------------------------------------------------------------
    with ctx.rule("C05.R1", "T1", "persist_response dominates every send-scheduling call of the lane-event arm; its Err edge returns", floor=3) as r:
        wt = ctx.saw(rt.fn(suffix="agent::task::write_task::{closure#0}"))
        persists = wt.calls_named("persist_response")
        if len(persists) != 1:
            raise AnchorMissing("write_task: expected one persist_response call, found %d" % len(persists))
        p = persists[0]
        te = wt.try_edges(p)
        if te is None:
            r.bad("write_task/persist_response/try", p.loc(), "result of persist_response is not propagated with `?` (no Try::branch on it)")
        else:
            cont, brk = te
            hes = wt.calls_named("handle_event", "WriteTaskState")
            if not hes:
                raise AnchorMissing("write_task: no call of WriteTaskState::handle_event")
            for he in hes:
                r.check(wt.dominates(cont, he.block), "write_task/handle_event", he.loc(),
                        "handle_event (bb%d) is dominated by the Ok edge (bb%d) of persist_response (bb%d)" % (he.block, cont, p.block),
                        "handle_event (bb%d) is NOT dominated by the Ok edge of persist_response: a response can be sent before it is handed to the store" % he.block)
            ups = wt.calls_named("into_uplink_response")
            for u in ups:
                r.check(wt.dominates(cont, u.block), "write_task/into_uplink_response", u.loc(),
                        "into_uplink_response is dominated by the Ok edge of persist_response")
            # the error edge must leave without scheduling anything
            sends = {c.block for c in wt.calls if c.name in ("handle_event", "schedule_write", "push_write", "push_special")}
            reach = wt.reachable_from([brk])
            leak = sorted(reach & sends)
            r.check(not leak, "write_task/persist_response/err-edge", p.loc(),
                    "Err edge of persist_response (bb%d) reaches Return without handle_event/schedule_write" % brk,
                    "Err edge of persist_response reaches send-scheduling calls at blocks %s" % leak)
            r.check(bool(reach & set(wt.exits())), "write_task/persist_response/err-returns", p.loc(),
                    "Err edge of persist_response reaches Return (the task stops with the store error)")
            # schedule_write calls that consume handle_event's iterator are dominated as well
            for he in hes:
                dom_sw = [c for c in wt.calls_named("schedule_write") if wt.dominates(he.block, c.block)]
                r.check(len(dom_sw) >= 1, "write_task/handle_event/schedule_write", he.loc(),
                        "%d schedule_write call(s) consume handle_event's writes after the persist" % len(dom_sw))

    # ---- R2 closure of the send path ---------------------------------------------------------
    with ctx.rule("C05.R2", "T4", "only write_task->handle_event->push_write->Uplinks::push can queue lane data for a remote", floor=5) as r:
        def owners(pairs):
            return sorted({owner_def(b) for b, _ in pairs})

        pw = callers_by_name(rt, "push_write", self_adt="RemoteTracker")
        if not pw:
            raise AnchorMissing("no caller of RemoteTracker::push_write")
        allowed = {"swimos_runtime::agent::task::WriteTaskState::handle_event"}
        for b, c in pw:
            ctx.saw(b)
            r.check(owner_def(b) in allowed, "push_write/caller/" + owner_def(b), c.loc(),
                    "RemoteTracker::push_write called from handle_event", "RemoteTracker::push_write called outside handle_event: a send path that bypasses persist_response")
        he = callers_by_name(rt, "handle_event", self_adt="WriteTaskState")
        if not he:
            raise AnchorMissing("no caller of WriteTaskState::handle_event")
        for b, c in he:
            r.check(owner_def(b) == "swimos_runtime::agent::task::write_task", "handle_event/caller/" + owner_def(b), c.loc(),
                    "handle_event called from write_task (the site R1 covers)", "handle_event has a caller other than write_task")
        r.check(len(he) == 1, "handle_event/single-site", he[0][1].loc(), "handle_event has exactly one call site", "handle_event has %d call sites; R1 covers one" % len(he))
        up = callers_by_name(rt, "push", self_adt="Uplinks")
        if not up:
            raise AnchorMissing("no caller of Uplinks::push")
        for b, c in up:
            r.check(owner_def(b) == "swimos_runtime::agent::task::remotes::RemoteTracker::push_write", "Uplinks::push/caller/" + owner_def(b), c.loc(),
                    "Uplinks::push called from RemoteTracker::push_write", "Uplinks::push called outside RemoteTracker::push_write")
        n = 0
        for b, a in crate_aggregates(rt, "write_fut::WriteAction"):
            if a[4] in ("Event", "ValueSynced", "MapSynced"):
                n += 1
                r.check(owner_def(b).startswith("swimos_runtime::agent::task::remotes::uplink::"), "WriteAction::%s/ctor/%s" % (a[4], owner_def(b)), b.loc(a[3]),
                        "data-carrying WriteAction::%s constructed in the uplink module" % a[4],
                        "data-carrying WriteAction::%s constructed outside remotes::uplink" % a[4])
        if n == 0:
            raise AnchorMissing("no construction of WriteAction::{Event,ValueSynced,MapSynced} found")

    # ---- R3 persist_response table -----------------------------------------------------------
    with ctx.rule("C05.R3", "T10-lite", "every payload-carrying response variant is routed to put_value / apply_map", floor=5) as r:
        pr = ctx.saw(rt.fn(suffix="agent::task::persist_response"))
        stops = {c.block for c in pr.calls if c.via_name in ("put_value", "apply_map")} | set(pr.exits())
        paths = decision_paths(pr, 0, lambda b: b in stops)
        expect = {("Lane", "Value"): "put_value", ("Lane", "Supply"): "put_value", ("Lane", "Map"): "apply_map",
                  ("Store", "Value"): "put_value", ("Store", "Map"): "apply_map"}
        seen = {}
        for cons, end, trail in paths:
            sid = [v for k, v in cons.items() if k.endswith(".store_id")]
            if not sid or sid[0] != "Some":
                continue
            outer = [v for k, v in cons.items() if k.endswith(".body")]
            inner = [v for k, v in cons.items() if k.endswith(".response") or k.endswith("<Store>.0")]
            c = pr.call_at(end)
            term = c.via_name if c is not None and c.via_name in ("put_value", "apply_map") else "return"
            key = (outer[0] if outer else "*", inner[0] if inner else "*")
            seen.setdefault(key, set()).add(term)
        if not seen:
            raise AnchorMissing("persist_response: no decision paths with store_id = Some")
        up = rt.adt("uplink::UplinkResponse")
        sd = rt.adt("receiver::StoreData")
        payload = {}
        for v in up["variants"]:
            payload[("Lane", v["name"])] = any("Bytes" in f[1] or "MapOperation" in f[1] for f in v["fields"])
        for v in sd["variants"]:
            payload[("Store", v["name"])] = any("Bytes" in f[1] or "MapOperation" in f[1] for f in v["fields"])
        for key, carries in sorted(payload.items()):
            terms = set()
            for k, t in seen.items():
                if (k[0] in (key[0], "*")) and (k[1] in (key[1], "*")):
                    terms |= t
            w = where(pr)
            if carries:
                want = expect.get(key)
                if want is None:
                    r.check(terms and "return" not in terms, "persist_response/%s.%s" % key, w,
                            "payload variant %s.%s reaches a store call %s" % (key[0], key[1], sorted(terms)),
                            "payload-carrying variant %s.%s falls through to Ok(()) without being persisted" % key)
                else:
                    r.check(terms == {want}, "persist_response/%s.%s" % key, w,
                            "%s.%s -> %s" % (key[0], key[1], want),
                            "%s.%s reaches %s, expected only %s" % (key[0], key[1], sorted(terms), want))
            else:
                r.ok("persist_response/%s.%s" % key, w, "%s.%s carries no state; reaches %s" % (key[0], key[1], sorted(terms)))
        # store id operand: both store calls get the matched store id
        for c in pr.calls:
            if c.via_name in ("put_value", "apply_map"):
                srcs = pr.sources(c.args[1])
                okk = any(s[0] == "field" and "store_id" in s[1].fields for s in srcs)
                r.check(okk, "persist_response/%s/store_id" % c.via_name, c.loc(), "%s receives the response's own store_id" % c.via_name)

    # ---- R4 apply_map table ------------------------------------------------------------------
    with ctx.rule("C05.R4", "T5", "StorePersistence::apply_map maps Update/Remove/Clear to update_map/remove_map/clear_map", floor=3) as r:
        am = ctx.saw(rt.fn(name="apply_map", self_adt="store::StorePersistence"))
        want = {"Update": "update_map", "Remove": "remove_map", "Clear": "clear_map"}
        stops = {c.block for c in am.calls if c.via_name in want.values()} | set(am.exits())
        got = {}
        for cons, end, trail in decision_paths(am, 0, lambda b: b in stops):
            vs = [v for k, v in cons.items() if v in want]
            c = am.call_at(end)
            if vs:
                got.setdefault(vs[0], set()).add(c.via_name if c is not None else "return")
        for v, m in want.items():
            r.check(got.get(v) == {m}, "apply_map/" + v, where(am), "MapOperation::%s -> %s" % (v, m),
                    "MapOperation::%s reaches %s, expected %s" % (v, sorted(got.get(v, [])), m))
        # operands: key / value come from the matched fields
        for c in am.calls:
            if c.via_name == "update_map":
                k = am.sources(c.args[2])
                v = am.sources(c.args[3])
                r.check(any(s[0] == "field" and "key" in s[1].fields for s in k) and any(s[0] == "field" and "value" in s[1].fields for s in v),
                        "apply_map/Update/operands", c.loc(), "update_map(key, value) receives the operation's key and value in that order",
                        "update_map operands do not derive from (key, value) of the operation")
            if c.via_name == "remove_map":
                k = am.sources(c.args[2])
                r.check(any(s[0] == "field" and "key" in s[1].fields for s in k), "apply_map/Remove/operands", c.loc(), "remove_map receives the operation's key")

    # ---- R5 initialisers ---------------------------------------------------------------------
    with ctx.rule("C05.R5", "T2", "store initialisers send InitComplete on every Ok path, after the stored entries; read errors return", floor=4) as r:
        inits = [e for e in rt.entries(regex=r"agent::store::.*Initializer<'a>>::initialize::\{closure#0\}$")]
        if len(inits) < 4:
            raise AnchorMissing("expected 4 Initializer::initialize coroutine bodies, found %d" % len(inits))
        for e in inits:
            b = ctx.saw(rt.body(e))
            tag = e.get("owner", {}).get("self_adt", e["def"]).split("::")[-1]
            ic = {a[0] for a in aggregates(b, "StoreInitMessage", "InitComplete")}
            cmd = {a[0] for a in aggregates(b, "StoreInitMessage", "Command")}
            oks = [i for i, j, p, rv, _ in b.assigns() if p[0] == 0 and not p[1] and rv[0] == "agg" and rv[1].get("variant") == "Ok"]
            if not ic:
                r.bad("%s/InitComplete" % tag, where(b), "initialiser never constructs StoreInitMessage::InitComplete")
                continue
            okp, wit = b.must_pass([0], ic, targets=oks)
            r.check(okp and bool(oks), "%s/InitComplete-on-every-Ok-path" % tag, where(b),
                    "every path to Ok(()) passes the InitComplete send", "a path reaches Ok(()) without sending InitComplete: blocks %s" % (wit,))
            after = b.reachable_from([s for i in ic for s in b.succ[i]])
            r.check(not (after & cmd), "%s/entries-before-InitComplete" % tag, where(b),
                    "no stored entry is sent after InitComplete", "a Command message can follow InitComplete")
            # errors of store reads are propagated
            for c in b.calls:
                if c.via_name in ("get_value", "read_map", "consume_next"):
                    te = b.try_edges(c)
                    r.check(te is not None and not (b.reachable_from([te[1]]) & ic), "%s/%s-error-propagates" % (tag, c.via_name), c.loc(),
                            "error of %s leaves via `?` without InitComplete" % c.via_name,
                            "error of %s is not propagated (state would be silently reset)" % c.via_name)

    # ---- R6 agent side ack -------------------------------------------------------------------
    with ctx.rule("C05.R6", "T1", "StoreInitialized is sent only after ItemInitializer::initialize returned Ok", floor=2) as r:
        ag = ctx.crate("swimos_agent")
        ri = ctx.saw(ag.fn(suffix="agent_model::init::run_item_initializer::{closure#0}"))
        inits = [c for c in ri.calls if c.via_name == "initialize"]
        acks = [a for a in aggregates(ri, "StoreInitialized")]
        if not inits:
            raise AnchorMissing("run_item_initializer: no initialize call")
        # StoreInitialized is a unit struct: find the `send` calls instead
        sends = [c for c in ri.calls if c.via_name == "send"]
        if not sends:
            raise AnchorMissing("run_item_initializer: no send call")
        # the acknowledgement lies on the Ok outcome of the awaited initialisation - whether the result is matched or passed on with `?`
        err_edges = []
        for si in ri.switches_on(lambda p, si: si["kind"] == "disc"):
            if not ri.dominates(inits[0].block, si["block"]):
                continue
            d_ = switch_desc(ri, si["block"]) or ""
            if "initialize(" not in d_:
                continue
            for s_ in ri.succ[si["block"]]:
                if edge_label(ri, si["block"], s_) in ("Err", "Break"):
                    err_edges.append(s_)
        for s in sends:
            g = dom_guards(ri, s.block)
            on_ok = any(d.startswith("disc(") and "initialize(" in d and l == "Ok" for d, l, _ in g)
            r.check(on_ok and ri.dominates(inits[0].block, s.block), "run_item_initializer/ack-after-init", s.loc(),
                    "send(StoreInitialized) is dominated by initialize(..) and by the Ok edge of its result",
                    "send(StoreInitialized) can run without a successful initialize")
        if not err_edges:
            r.bad("run_item_initializer/result-match", where(ri), "the result of initialize(..).await is not examined")
        else:
            r.check(not (ri.reachable_from(err_edges) & {s.block for s in sends}), "run_item_initializer/err-no-ack", where(ri),
                    "Err edge of initialize returns without acknowledging")

    # ---- R7 transience -----------------------------------------------------------------------
    with ctx.rule("C05.R7", "T6", "a lane gets store_id None only when transient or when no store is available; other errors propagate", floor=2) as r:
        wt = rt.fn(suffix="agent::task::write_task::{closure#0}")
        sid = [c for c in wt.calls if c.via_name == "store_id"]
        if len(sid) < 2:
            raise AnchorMissing("write_task: expected 2 store_id calls, found %d" % len(sid))
        tr = wt.switches_on(lambda p, si: p is not None and p.fields[-1:] == ("transient",))
        r.check(len(tr) >= 1, "write_task/transient-branch", where(wt), "store id lookup is decided by a branch on endpoint.transient",
                "no branch on endpoint.transient in write_task")
        for c in sid:
            sws = wt.result_switches(c)
            te = wt.try_edges(c)
            if te is not None:
                r.ok("write_task/store_id@%s/err" % ("store" if c is sid[-1] else "lane"), c.loc(), "store_id error propagated with `?`")
                continue
            # match form: Err(NoStoreAvailable) => None, Err(err) => return Err(err)
            found = False
            for si in sws:
                ve = wt.variant_edges(si["block"])
                if ve and "Err" in ve:
                    found = True
                    reach = wt.reachable_from([ve["Err"]])
                    r.check(bool(reach & set(wt.exits())), "write_task/store_id@lane/err", c.loc(), "Err edge of store_id can return the error",
                            "Err edge of store_id never returns: store errors are swallowed")
            if not found:
                r.bad("write_task/store_id@lane/err", c.loc(), "result of store_id is neither matched nor propagated")

    # ---- R8 who is persistent is decided per lane ---------------------------------------------
    with ctx.rule("C05.R8", "T7+T1", "the `transient` flag a lane is registered with derives from that lane's own declaration (fresh in every iteration)", floor=3) as r:
        ag = ctx.crate("swimos_agent")
        ia = [b for b in ag.all_bodies() if b.defpath.endswith("initialize_agent::{closure#0}") and "AgentModel" in b.defpath]
        if len(ia) != 1:
            raise AnchorMissing("initialize_agent coroutine")
        b = ctx.saw(ia[0])
        adds = [c for c in b.calls if c.via_name == "add_lane" and len(c.args) >= 4]
        if len(adds) < 3:
            raise AnchorMissing("initialize_agent: expected >= 3 add_lane calls, found %d" % len(adds))
        for k_, c in enumerate(sorted(adds, key=lambda x: x.line)):
            # the named local behind the config argument
            L = c.args[3][1][0]
            seen = set()
            while L not in seen:
                seen.add(L)
                d = b.single_def(L)
                if d and d[0] == "assign" and d[3][0] == "use" and d[3][1][0] in ("c", "m") and not d[3][1][1][1]:
                    L = d[3][1][1][0]
                else:
                    break
            whole = [d for d in b.defs.get(L, ()) if d[0] == "assign"]
            parts = [d for d in b.defs.get(L, ()) if d[0] == "part"]
            # the iteration this registration belongs to: the innermost next() that dominates the call and lies on a cycle with it
            its = [x for x in b.calls if x.name == "next" and b.dominates(x.block, c.block) and b.reaches(c.block, {x.block})]
            its.sort(key=lambda x: sum(1 for y in its if b.dominates(y.block, x.block)))
            it = its[-1] if its else None
            key = "initialize_agent/add_lane#%d" % k_
            r.check(bool(whole) and all("default_lane_config" in describe_rvalue(b, d[3]) for d in whole), key + "/config-from-default", c.loc(), "the lane's config starts from default_lane_config",
                    "the config passed to add_lane does not start from default_lane_config")
            if it is not None:
                stale = [d for d in whole if not b.dominates(it.block, d[1])]
                r.check(not stale, key + "/config-fresh-per-item", c.loc(), "the config is initialised inside the iteration that registers the lane",
                        "the config passed to add_lane is initialised outside the loop over the items and mutated inside it (`transient = true` sticks): every lane visited after a transient one is registered as transient and is never persisted")
            for d in parts:
                pl = describe_place(b, d[3])
                if not pl.endswith(".transient"):
                    continue
                g = dom_guards(b, d[1])
                own = any(dd.startswith("contains(") and "TRANSIENT" in dd or (dd.startswith("contains(") and "flags" in dd and l == "true") for dd, l, _ in g)
                always = it is not None and any(b.dominates(w[1], d[1]) and b.dominates(it.block, w[1]) for w in whole) and not any(dd.startswith("contains(") for dd, l, _ in g)
                r.check(own or always, key + "/transient-set-by-own-flag", b.loc(d[5] if len(d) > 5 else c.line), "transient := true under the item's own TRANSIENT flag (or unconditionally for dynamically added lanes, on a fresh config)",
                        "transient is set under %s" % [(dd[:40], l) for dd, l, _ in g][-2:])

    with ctx.rule("C05.R9", "T7+T1", "a lane is restored from and persisted under one id: the id its own name maps to, allocated crash-safely", floor=8) as r:
        id_allocation_rule(r, ctx)
        # runtime side: the id handed to the store initialiser (restore) and the id returned with the endpoint (under which persist_response
        # later writes) are the same result of store.store_id(<this item's name>)
        ast = ctx.saw(rt.fn(suffix="init::Initialization::add_store"))
        sid = [c for c in ast.calls if c.via_name == "store_id"]
        if len(sid) != 1:
            raise AnchorMissing("Initialization::add_store: store_id call")
        r.check(describe_operand(ast, sid[0].args[1]) in ("as_str(name)", "name"), "add_store/id-of-own-name", sid[0].loc(), "the store id is looked up by the store's own name", "store_id is looked up by %s" % describe_operand(ast, sid[0].args[1]))
        want = "store_id(store, %s)<Ok>.0" % describe_operand(ast, sid[0].args[1])
        used = []
        for c in ast.calls:
            if c.via_name in ("init_value_store", "init_map_store"):
                used.append((c, describe_operand(ast, c.args[1])))
            if c.name == "map_ok":
                used.append((c, describe_operand(ast, c.args[1])[len("agg("):-1]))
        r.check(len(used) >= 3 and all(d == want for _, d in used), "add_store/restore-id=persist-id", where(ast), "the id the state is restored from and the id returned for persisting are the same store_id result (%d uses)" % len(used),
                "ids used: %s (expected every use to be %s)" % ([d for _, d in used], want))
        al = [b for b in rt.all_bodies() if b.defpath.endswith("init::Initialization::add_lane::{closure#0}")]
        if len(al) != 1:
            raise AnchorMissing("Initialization::add_lane coroutine")
        al = ctx.saw(al[0])
        getter = [b for b in rt.closures_of(al.defpath) if any(c.via_name == "store_id" for c in b.calls)]
        r.check(len(getter) == 1 and all(describe_operand(getter[0], c.args[1]) in ("as_str(name)", "name") for c in getter[0].calls if c.via_name == "store_id"), "add_lane/id-of-own-name", where(al),
                "the store id is looked up by the lane's own name", "the lane's store id is not looked up by its own name")
        ats = [c for c in al.calls if c.name == "and_then" and any(x.via_name in ("init_value_store", "init_map_store") for cb in rt.closures_of(al.defpath) for x in cb.calls)]
        tup = [(i, describe_rvalue(al, rv)) for i, j, p, rv, line in al.assigns() if rv[0] == "agg" and "adt" not in rv[1] and len(rv[2]) == 2 and "Option::Some(" in describe_rvalue(al, rv)]
        n = 0
        for c in ats:
            recv = describe_operand(al, c.args[0])
            mine = [d for i, d in tup if al.dominates(c.block, i) and d.startswith("tuple(")]
            if not mine:
                continue
            n += 1
            first = mine[0][len("tuple("):]
            r.check(first.startswith(recv + ", "), "add_lane/restore-id=persist-id#%d" % n, c.loc(), "the initialiser is built from the same id that is returned for persisting",
                    "the initialiser is built from %s but the id returned for persisting is %s" % (recv[:60], first[:60]))
            r.check("call(" in recv and ("branch(" in recv or "<Ok>" in recv), "add_lane/id-from-store_id#%d" % n, c.loc(), "that id is the (error-propagated) result of the store_id look-up")
        if n < 2:
            raise AnchorMissing("add_lane: expected the value and map arms to build an initialiser from the store id (found %d)" % n)
        # ... and what add_lane hands back for persisting is that same id, untouched: the component of the pair the initialiser came from
        li = [c for c in al.calls if c.name == "lane_initialization"]
        if len(li) != 1:
            raise AnchorMissing("add_lane: expected one lane_initialization call, found %d" % len(li))
        init_pl = op_place(li[0].args[-1])
        from rules.common import ty_of
        rets = [(i, rv) for i, j, p, rv, line in al.assigns() if rv[0] == "agg" and rv[1].get("tuple") and len(rv[2]) == 2 and ty_of(al, rv[2][0]).endswith("task::LaneEndpoint<swimos_byte_channel::channel::ByteReader>") or
                (rv[0] == "agg" and rv[1].get("tuple") and len(rv[2]) == 2 and "LaneEndpoint" in ty_of(al, rv[2][0]))]
        rets = [(i, rv) for i, rv in rets if al.reaches(li[0].block, {i})]
        if len(rets) != 1 or init_pl is None:
            raise AnchorMissing("add_lane: the (endpoint, store id) pair returned on the restored path (found %d)" % len(rets))
        id_pl = op_place(rets[0][1][2][1])
        p_init = al.resolve(init_pl)
        p_id = al.resolve(id_pl) if id_pl is not None else None
        # the pair built by the match on the lane kind is (id looked up, initialiser made from it): the id handed back is component 0 of the pair whose
        # component 1 is the initialiser that ran
        same = p_id is not None and p_id.root == p_init.root and tuple(p_id.fields) == ("0",) and tuple(p_init.fields)[:1] == ("1",)
        r.check(same, "add_lane/returned-id=looked-up-id", al.loc(al.blocks[rets[0][0]]["t"].get("line")), "the id returned for persisting is the id the lane was restored from (%s)" % describe_operand(al, rets[0][1][2][1])[:40],
                "add_lane returns `%s` as the id to persist under, not the id it looked up and restored from: a persistent lane registered after initialisation is restored from the store but its later states are "
                "never handed to the store (or go under another id)" % describe_operand(al, rets[0][1][2][1])[:80])
        inits = {cb.defpath: [x.via_name for x in cb.calls if x.via_name in ("init_value_store", "init_map_store")] for cb in rt.closures_of(al.defpath)}
        for dp, nm in sorted(inits.items()):
            for m in nm:
                cb = [x for x in rt.closures_of(al.defpath) if x.defpath == dp][0]
                a = [describe_operand(cb, x.args[1]) for x in cb.calls if x.via_name == m]
                r.check(a == ["lane_id"], "add_lane/%s/by-the-looked-up-id" % m, where(cb), "%s is given the looked-up id" % m, "%s is given %s" % (m, a))

    with ctx.rule("C05.R10", "T5", "the RocksDB store applies each operation it is handed to that lane's own entries (shared with C13.R3/R4)", floor=10) as r:
        # `a map comes back as exactly the entries implied by the operations handed over`: the NodePersistence methods reach the matching engine
        # operation with the matching key, and clear_map's range delete covers one lane id only
        from rules.C13 import delete_map_range, store_wrapper_table
        rs = ctx.crate("swimos_rocks_store")
        store_wrapper_table(r, ctx, rs)
        delete_map_range(r, ctx, rs)

    # the in-memory store: a stopping agent's state is handed to the next instance or parked whole - never an emptied one (C13.R5)
    from rules import C13 as _C13
    ctx.borrow(_C13, {"C13.R5": ("C05.R11", "in-memory store: the state of a stopping agent is handed over or parked as it is, on every outcome of the hand-off (C13.R5)")})


