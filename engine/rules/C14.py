"""C14 Supply lanes, command lanes and agent-sent commands are never coalesced."""
import re

from mirlib import op_place, AnchorMissing, describe_call, describe_operand, describe_place, describe_rvalue, dom_guards, guards, _suffix_match
from rules import uplinks
from rules.common import guards_with_sources, ty_of, aggregates, callers_by_name, owner_def, value_origins, where

META = {
    "explanation": (
        "C14: none of these paths may drop or merge messages on its own. R1 the supply lane's event queue and the supply backpressure "
        "buffer are only ever used as FIFOs (push_back/pop_front; length-prefixed append / read one record); R2 supply responses go to the "
        "supply uplink map and are queued with UplinkKind::Supply; R3 a supply uplink re-queues itself while it has data, and a record taken out by prepare_write is always sent (R3b: the ValueSynced flag is the has_data() sampled before prepare_write); R4 the ad hoc "
        "command buffer: append truncates only back to the last *overwritable* record, the offset only stays behind for an overwritable "
        "record, and write hands over exactly the pending records (the send buffer is reset before it is filled); R5 the read task flushes a "
        "lane's sender before switching lanes and feeds every command; R6 the command lane handler runs once per command; R7 every received "
        "command message reaches CommandOutput::append. R12 (shared with C10.R13) the command decoder resumes a frame that arrives in pieces; R13 commands written by a handler are handed to the command writer on every path that leaves it (known finding F59)."
        ' R17 CommandOutput::write clears `dirty` without walking it only when it has exactly one entry.'
),
    "does_not_decide": "end-to-end exactly-once delivery under a stalled peer over all interleavings",
}

AG = "swimos_agent"
RT = "swimos_runtime"


def run(ctx):
    ag = ctx.crate(AG)
    rt = ctx.crate(RT)

    with ctx.rule("C14.R1", "T4", "supply queues are FIFO only", floor=6) as r:
        SI = "lanes::supply::SupplyLaneInner"
        allowed = {"push_back", "pop_front", "is_empty", "len", "deref", "deref_mut"}
        n = 0
        for b in ag.all_bodies():
            for c in b.calls:
                if not c.args:
                    continue
                p = c.arg_path(0)
                if p is not None and p.has_field(SI, "event_queue"):
                    n += 1
                    ctx.saw(b)
                    r.check(c.name in allowed, "SupplyLaneInner.event_queue/%s/%s" % (owner_def(b).split("::")[-1], c.name), c.loc(), "event_queue.%s (FIFO use)" % c.name,
                            "event_queue.%s: the supply queue is no longer a plain FIFO (items can be dropped or reordered)" % c.name)
        if n < 3:
            raise AnchorMissing("expected >= 3 uses of SupplyLaneInner.event_queue, found %d" % n)
        SB = "backpressure::SupplyBackpressure"
        okset = {"reserve", "put_u64", "put", "get_u64", "take", "is_empty", "len", "deref", "deref_mut", "has_remaining", "remaining"}
        for b in rt.all_bodies():
            if b.meta.get("name") == "fmt":
                continue
            for c in b.calls:
                if not c.args:
                    continue
                touched = [a for a in c.args if a[0] in ("c", "m") and b.resolve(a[1]).has_field(SB, "buffer")]
                if touched:
                    ctx.saw(b)
                    r.check(c.name in okset and "SupplyBackpressure" in b.defpath, "SupplyBackpressure.buffer/%s/%s" % (b.meta.get("name"), c.name), c.loc(), "buffer.%s in %s" % (c.name, b.meta.get("name")),
                            "SupplyBackpressure.buffer.%s in %s: records can be discarded or merged" % (c.name, b.defpath))
        pb = ctx.saw(rt.fn(name="push_bytes", self_adt=SB))
        seq = [c.name for c in pb.calls if c.name in ("put_u64", "put")]
        r.check(seq == ["put_u64", "put"], "SupplyBackpressure::push_bytes/length-prefixed-append", where(pb), "each record is appended as u64 length + body", "push_bytes writes %s" % seq)
        pw = ctx.saw(rt.fn(name="prepare_write", self_adt=SB))
        gu = [c for c in pw.calls if c.name == "get_u64"]
        tk = [c for c in pw.calls if c.name == "take"]
        r.check(len(gu) == 1 and len(tk) == 1 and "get_u64(" in describe_operand(pw, tk[0].args[1]), "SupplyBackpressure::prepare_write/one-record", where(pw), "exactly one length-prefixed record is moved to the output (take(len) with len from get_u64)",
                "prepare_write does not read exactly one record")
        clr = [c for c in pw.calls if c.name == "clear"]
        r.check(all(not describe_operand(pw, c.args[0]).endswith(".buffer") for c in clr), "SupplyBackpressure::prepare_write/no-clear-of-queue", where(pw), "only the output buffer is cleared, never the record queue")

    with ctx.rule("C14.R2", "T8", "supply responses use the supply uplink (unbounded FIFO), not the value uplink (overwriting)", floor=3) as r:
        a = rt.adt("uplink::Uplinks")
        fl = dict((f[0], f[1]) for f in a["variants"][0]["fields"])
        r.check("SupplyBackpressure" in fl.get("supply_uplinks", ""), "Uplinks.supply_uplinks/type", "-", "supply_uplinks: %s" % fl.get("supply_uplinks", "")[-60:], "supply_uplinks no longer holds SupplyBackpressure uplinks")
        push, pop, _ = uplinks.fns(ctx)
        pbs = [c for c in push.calls if c.name == "push_bytes" and any(l == "Supply" for d, l, _ in dom_guards(push, c.block) if d == "disc(event)")]
        r.check(len(pbs) == 1 and "supply_uplinks" in describe_operand(push, pbs[0].args[0]) and "SupplyBackpressure" in pbs[0].defpath, "push/Supply=>supply_uplinks.push_bytes", where(push), "UplinkResponse::Supply is appended to the supply uplink's buffer",
                "UplinkResponse::Supply is routed to %s" % [describe_operand(push, c.args[0])[:60] for c in pbs])
        wt = rt.fn(suffix="uplink::write_to_buffer")
        r.check(True, "write_to_buffer/direct", where(wt), "direct writes copy the body (no coalescing possible)")
        rc = ctx.saw(rt.fn(suffix="receiver::value_or_supply_raw_response"))
        sl = [c for c in rc.calls if c.name == "supply_lane"]
        r.check(len(sl) >= 1 and all(any(d == "disc(uplink)" and l == "Supply" for d, l, _ in dom_guards(rc, c.block)) for c in sl), "receiver/Supply=>supply_lane", where(rc), "supply lanes produce ItemResponse::supply_lane (UplinkResponse::Supply)")

    with ctx.rule("C14.R14", "T5+T8", "a lane's kind decides its uplink: supply lanes are registered as supply uplinks on every registration path", floor=8) as r:
        # WarpLaneKind --uplink_kind()--> UplinkKind --LaneEndpoint.kind--> into_lane_stream --> ResponseReceiver::supply_lane --> UplinkResponse::Supply
        # (R2 continues from there). A supply lane that is registered with any other uplink kind is served by the overwriting value uplink: items
        # pushed while the remote's writer is busy are coalesced.
        api = ctx.crate("swimos_api")
        uk = ctx.saw(api.fn(name="uplink_kind", self_adt="lane::WarpLaneKind"))
        lane_kinds = {v["name"] for v in api.adt("lane::WarpLaneKind")["variants"]}

        def kind_table(body, only_return=False):
            """lane kind -> uplink kinds, read off the constants `UplinkKind::X` built under a match on a WarpLaneKind"""
            t = {}
            for i, j, p_, rv, line in body.assigns():
                if only_return and (p_[0] != 0 or p_[1]):
                    continue
                m_ = re.match(r"^UplinkKind::(\w+)\(\)$", describe_rvalue(body, rv))
                if not m_:
                    continue
                for dd, l, _ in dom_guards(body, i):
                    if dd.startswith("disc(") and set(l.split("|")) <= lane_kinds:
                        for k_ in l.split("|"):
                            t.setdefault(k_, set()).add(m_.group(1))
            return t
        tab = kind_table(uk, only_return=True)
        r.check(tab.get("Supply") == {"Supply"}, "WarpLaneKind::uplink_kind/Supply=>Supply", where(uk), "a supply lane has a supply uplink", "WarpLaneKind::Supply is given the uplink kind %s" % sorted(tab.get("Supply", ())))
        others = sorted(k_ for k_, v in tab.items() if k_ != "Supply" and "Supply" in v)
        r.check(not others, "WarpLaneKind::uplink_kind/only-Supply=>Supply", where(uk), "no other lane kind is given the supply uplink", "%s are given the supply uplink" % others)
        for k_ in ("Value", "Command", "Demand"):
            r.check(tab.get(k_) == {"Value"}, "WarpLaneKind::uplink_kind/%s=>Value" % k_, where(uk), "%s lanes use the value uplink" % k_, "%s lanes are given %s" % (k_, sorted(tab.get(k_, ()))))
        for k_ in ("Map", "DemandMap", "JoinMap", "JoinValue"):
            r.check(tab.get(k_) == {"Map"}, "WarpLaneKind::uplink_kind/%s=>Map" % k_, where(uk), "%s lanes use the map uplink" % k_, "%s lanes are given %s" % (k_, sorted(tab.get(k_, ()))))
        # every place that fills LaneEndpoint.kind takes it from uplink_kind() of the lane's kind (or copies it from another endpoint)
        n_sites = 0
        for b in rt.all_bodies():
            if "::tests" in b.defpath:
                continue
            for a in aggregates(b, "task::LaneEndpoint"):
                fields = [f_[0] for f_ in rt.adt("task::LaneEndpoint")["variants"][0]["fields"]]
                if "kind" not in fields:
                    raise AnchorMissing("LaneEndpoint.kind")
                op = a[2][fields.index("kind")]
                org = value_origins(rt, b, op)
                n_sites += 1
                fn = b.defpath.split("task::")[-1]
                good = bool(org) and all(o == ("field", "LaneEndpoint.kind") or (o[0] == "call" and o[1].endswith("WarpLaneKind::uplink_kind")) for o in org)
                if not good and org and all(o[0] == "const" for o in org):
                    # the table restated in place (`match kind { Supply => UplinkKind::Supply, .. }`): accepted when it is the same table
                    here = kind_table(b)
                    good = bool(here) and all(here.get(k_) == v_ for k_, v_ in tab.items())
                r.check(good, "LaneEndpoint.kind/%s/from-uplink_kind" % fn.replace("::{closure#0}", ""), b.loc(a[3]), "the endpoint's uplink kind is WarpLaneKind::uplink_kind() of the lane being registered",
                        "the endpoint's uplink kind comes from %s, not from WarpLaneKind::uplink_kind(): a supply lane registered on this path is served by another kind of uplink (the value uplink overwrites what a slow remote has not yet been sent)" % sorted("%s %s" % o for o in org))
        if n_sites < 3:
            raise AnchorMissing("LaneEndpoint constructions: expected 3, found %d" % n_sites)
        ils = ctx.saw(rt.fn(name="into_lane_stream"))
        want = {"supply_lane": "Supply", "value_like_lane": "Value", "map_lane": "Map"}
        for c in ils.calls:
            if c.name in want:
                labs = [l for d, l, _ in dom_guards(ils, c.block) if d.startswith("disc(") and d.endswith("kind)")]
                r.check(labs == [want[c.name]], "into_lane_stream/%s=>%s" % (want[c.name], c.name), c.loc(), "UplinkKind::%s is read with ResponseReceiver::%s" % (want[c.name], c.name),
                        "ResponseReceiver::%s is chosen for uplink kind %s" % (c.name, labs))
        r.check({c.name for c in ils.calls} >= set(want), "into_lane_stream/all-three-receivers", where(ils), "each uplink kind has its receiver")

    with ctx.rule("C14.R3", "T2", "a supply uplink re-queues itself while it has data", floor=1) as r:
        uplinks.requeue_while_data(r, ctx, kinds=("Supply",))

    with ctx.rule("C14.R3b", "T7", "a record popped from a supply uplink is always sent: the 'send the value' flag of ValueSynced is exactly has_data()", floor=5) as r:
        uplinks.no_data_no_event(r, ctx)

    with ctx.rule("C14.R3c", "T4", "items queued for a remote are discarded only when its unlink is accepted, not when a queued unlink is written", floor=4) as r:
        uplinks.uplink_state_lifetime(r, ctx)

    with ctx.rule("C14.R4", "T6+T7", "CommandOutput: only an overwritable trailing record can be superseded; write hands over exactly the pending records", floor=7) as r:
        CO = "external_links::CommandOutput"
        ap = ctx.saw(rt.fn(name="append", self_adt=CO))
        tr = [c for c in ap.calls if c.name == "truncate"]
        enc = [c for c in ap.calls if c.via_name == "encode"]
        if len(tr) != 1 or len(enc) != 1:
            raise AnchorMissing("CommandOutput::append: truncate / encode")
        r.check(describe_operand(ap, tr[0].args[1]).endswith("offset") and ap.dominates(tr[0].block, enc[0].block), "append/truncate-to-offset-before-encode", tr[0].loc(), "buffer.truncate(*offset) precedes the encode",
                "truncate(%s)" % describe_operand(ap, tr[0].args[1]))
        # every value that can be stored into `offset`, with the condition it is stored under. `*offset = if c { a } else { b }`
        # assigns through a temporary with one definition per branch: those definitions are the updates.
        ows = []
        for i, j, p, rv, line in ap.assigns():
            if not (p[1] and describe_place(ap, p).endswith("offset")):
                continue
            expanded = False
            if rv[0] == "use" and rv[1][0] in ("c", "m") and not rv[1][1][1]:
                ds = [d_ for d_ in ap.defs.get(rv[1][1][0], ()) if d_[0] in ("assign", "call")]
                if len(ds) > 1:
                    for d_ in ds:
                        if d_[0] == "assign":
                            ows.append((d_[1], line, describe_rvalue(ap, d_[3]), dom_guards(ap, d_[1]), d_[3]))
                        else:
                            ows.append((d_[1], line, describe_call(ap, d_[2]), dom_guards(ap, d_[1]), ("callval", d_[2])))
                    expanded = True
            if not expanded:
                ows.append((i, line, describe_rvalue(ap, rv), dom_guards(ap, i), rv))
        stay = [o for o in ows if any(d == "overwrite_permitted" and l == "true" for d, l, _ in o[3])]
        adv = [o for o in ows if any(d == "overwrite_permitted" and l == "false" for d, l, _ in o[3])]
        r.check(len(stay) == 1 and len(adv) == 1 and len(ows) == 2, "append/offset-update-sites", where(ap), "offset is updated once on each edge of overwrite_permitted", "offset updates: %s" % [(o[2], [(d, l) for d, l, _ in o[3]]) for o in ows])
        if stay and adv:
            lens = [c for c in ap.calls if c.name == "len" and "buffer" in describe_operand(ap, c.args[0])]
            before = [c for c in lens if ap.dominates(c.block, enc[0].block)]
            after = [c for c in lens if ap.dominates(enc[0].block, c.block)]

            def len_sources(o):
                rv_ = o[4]
                if rv_[0] == "callval":
                    return [rv_[1]] if rv_[1].name == "len" else []
                op_ = rv_[1] if rv_[0] == "use" else None
                return [s_[1] for s_ in ap.sources(op_) if s_[0] == "call" and s_[1].name == "len"] if op_ is not None else []
            s_src = len_sources(stay[0])
            a_src = len_sources(adv[0])
            r.check(bool(s_src) and all(c in before for c in s_src), "append/overwritable=>offset-at-record-start", ap.loc(stay[0][1]), "for an overwritable record offset stays at the record's start (buffer.len() read before the encode)",
                    "offset for an overwritable record is `%s`, not the start of that record (buffer.len() sampled before it was appended): the next append truncates the buffer there and discards the queued commands that precede the record" % stay[0][2][:40])
            r.check(bool(a_src) and all(c in after for c in a_src), "append/non-overwritable=>offset-at-end", ap.loc(adv[0][1]), "for a non-overwritable record offset moves to buffer.len() read after the encode: it can never be truncated",
                    "offset for a non-overwritable record is not read after the encode: the next append truncates (drops) it")
        dp = [c for c in ap.calls if c.name == "push" and describe_operand(ap, c.args[0]).endswith(".dirty")]
        r.check(len(dp) == 1 and ap.must_pass([0], {dp[0].block})[0], "append/marks-dirty", where(ap), "every append marks the target dirty")
        oth = [c for b in rt.all_bodies() if "external_links" in b.defpath for c in b.calls if c.name in ("truncate", "split_off", "split_to", "advance") and "buffer" in describe_operand(b, c.args[0]) and b.defpath != ap.defpath and "CommandOutput" in b.defpath]
        r.check(not oth, "CommandOutput/no-other-truncation", where(ap), "no other function of CommandOutput cuts a lane buffer", "lane buffer cut in %s" % [c.body.defpath for c in oth])
        wr = ctx.saw(rt.fn(name="write", self_adt=CO))
        sw = [c for c in wr.calls if c.name == "swap_buffer"]
        apb = [c for c in wr.calls if c.name == "append_buffer"]
        snd = [c for c in wr.calls if c.name == "send_commands"]
        if len(sw) != 1 or len(apb) != 1 or len(snd) < 1:
            raise AnchorMissing("CommandOutput::write: swap_buffer/append_buffer/send_commands sites (%d/%d/%d)" % (len(sw), len(apb), len(snd)))
        clears = [c for c in wr.calls if c.name == "clear" and describe_operand(wr, c.args[0]).endswith("writer<Some>.0.buffer") or (c.name == "clear" and ".buffer" in describe_operand(wr, c.args[0]) and "writer" in describe_operand(wr, c.args[0]))]
        r.check(any(wr.dominates(c.block, apb[0].block) and not wr.reaches(apb[0].block, {c.block}) for c in clears), "write/multi-record/send-buffer-cleared", apb[0].loc(),
                "the send buffer is cleared before pending records are appended to it",
                "append_buffer adds to a send buffer that still holds the previous write: earlier commands are sent again")
        sb = ctx.saw(rt.fn(name="swap_buffer", self_adt="external_links::CmdChannelWriter"))
        cl = [c for c in sb.calls if c.name == "clear"]
        sp = [c for c in sb.calls if c.name == "swap"]
        r.check(len(cl) == 1 and len(sp) == 1 and sb.dominates(cl[0].block, sp[0].block) and describe_operand(sb, cl[0].args[0]).endswith(".buffer") and "self" in describe_operand(sb, cl[0].args[0]), "swap_buffer/clear-own-then-swap", where(sb),
                "swap_buffer clears the writer's own buffer, then swaps", "swap_buffer does not reset the send buffer first")
        # offsets reset, dirty drained
        zs = [(i, line) for i, j, p, rv, line in wr.assigns() if p[1] and describe_place(wr, p).endswith("offset") and describe_rvalue(wr, rv) == "0"]
        r.check(len(zs) >= 2, "write/offset-reset", where(wr), "after the hand-over the lane buffer's offset is reset to 0 on both paths", "offset is not reset after hand-over: the next append truncates into sent data")
        dr = [c for c in wr.calls if c.name in ("clear", "drain") and describe_operand(wr, c.args[0]).endswith("dirty")]
        r.check(len(dr) >= 2, "write/dirty-drained", where(wr), "the dirty list is emptied on both paths")
        for c in snd:
            r.check(any(wr.dominates(x.block, c.block) or wr.reaches(x.block, {c.block}) for x in sw + apb), "write/send-after-fill", c.loc(), "send_commands follows the buffer hand-over")

    with ctx.rule("C14.R5", "T1", "read task: a fed command is flushed; the previous lane is flushed before another lane is used", floor=3) as r:
        rd = ctx.saw(rt.fn(suffix="agent::task::read_task::{closure#0}"))
        ff = [c for c in rd.calls if c.name == "feed_frame"]
        if len(ff) != 1:
            raise AnchorMissing("read_task: feed_frame")
        fl = [c for c in rd.calls if c.name == "flush" and rd.dominates(ff[0].block, c.block)]
        # the "lane with unflushed commands" cell is the local handed to flush_lane as its `needs_flush` parameter (its own name is free to change)
        NF = set()
        for c in rd.calls:
            if c.name == "flush_lane" and len(c.args) >= 2:
                pl = op_place(c.args[1])
                if pl is not None:
                    NF.add(rd.resolve(pl).root)
        nf = [(i, line, describe_rvalue(rd, rv)) for i, j, p, rv, line in rd.assigns() if not p[1] and p[0] in NF and describe_rvalue(rd, rv).startswith("Option::Some(")]
        r.check(bool(fl) and any(rd.dominates(ff[0].block, i) for i, _, _ in nf), "read_task/feed=>flush+remember", ff[0].loc(), "after a successful feed the sender is flushed and the lane is remembered in needs_flush",
                "a fed command is not flushed / remembered")
        fls = [c for c in rd.calls if c.name == "flush_lane"]
        r.check(len(fls) >= 3, "read_task/flush_lane-sites", where(rd), "flush_lane is used in %d places (timeout, lane switch, stop)" % len(fls), "flush_lane sites: %d" % len(fls))
        # the lane-switch flush: a flush_lane call from which the feed_frame of the new envelope is reachable, and which
        # is reached before lanes.get_mut(id) of that envelope
        gm = [c for c in rd.calls if c.name == "get_mut" and "sender::LaneSender" in ty_of(rd, c.args[0]) and rd.dominates(c.block, ff[0].block)]
        def tests_nf(sb):
            """the switch in block sb examines the needs_flush cell"""
            t = rd.term(sb)
            if t["k"] != "switch":
                return False
            si = rd.switch_info(sb)
            pl = si.get("place") if si and si.get("kind") == "disc" else op_place(t["discr"])
            if pl is None:
                return False
            if rd.resolve(pl).root in NF:
                return True
            # (also through a call that reads the cell: `needs_flush.is_some_and(|pending| pending != *id)`)
            srcs_ = rd.sources(["c", pl], stop_at_calls=False)
            READS = ("is_some_and", "is_some", "is_none", "is_none_or", "map_or", "eq", "ne", "as_ref", "copied", "cloned", "filter", "contains", "unwrap_or", "map", "and_then", "zip", "unwrap_or_default")
            if any(s_[0] == "call" and (s_[1].via_name or s_[1].name) in READS and any(op_place(a_) is not None and (rd.copy_root(a_) in NF or rd.resolve(op_place(a_)).root in NF) for a_ in s_[1].args) for s_ in srcs_):
                return True
            return any((s_[0] == "local" and s_[1] in NF) or (s_[0] == "field" and s_[1].root in NF) for s_ in srcs_)
        sw = []
        for c in fls:
            if not (gm and rd.reaches(c.block, {gm[0].block}) and not rd.dominates(gm[0].block, c.block)):
                continue
            g = dom_guards(rd, c.block)
            if not any(l == "Envelope" for d, l, _ in g):
                continue
            # the guard is `matches!(&needs_flush, Some(i) if i != id)`: a flag local set to true under a test of needs_flush
            okg = False
            for d, l, a in g:
                if l == "true" and d.startswith("_") and d[1:].isdigit():
                    loc = int(d[1:])
                    for i, j, p, rv, line in rd.assigns():
                        if p[0] == loc and not p[1] and describe_rvalue(rd, rv) == "True":
                            okg = okg or any(tests_nf(blk_) for dd, ll, blk_ in guards(rd, i))
                elif tests_nf(a):
                    okg = True
            if okg:
                sw.append(c)
        r.check(bool(gm) and bool(sw), "read_task/flush-before-switching-lane", where(rd), "when needs_flush names a different lane it is flushed before the new lane's sender is looked up",
                "the previous lane is no longer flushed before another lane's sender is used: commands to different lanes can overtake each other")
        fl_fn = ctx.saw(rt.fn(suffix="agent::task::flush_lane::{closure#0}"))
        r.check(any(c.name == "take" and "needs_flush" in describe_operand(fl_fn, c.args[0]) for c in fl_fn.calls) and any(c.name == "flush" for c in fl_fn.calls), "flush_lane/take-and-flush", where(fl_fn), "flush_lane takes the pending id and flushes that sender")

    with ctx.rule("C14.R6", "T2", "command lane: one handler invocation per command", floor=2) as r:
        CL = "lanes::command::CommandLane"
        cm = ctx.saw(ag.fn(name="command", self_adt=CL))
        r.check(any(True for i, j, p, rv, line in cm.assigns() if p[1] and ("prev_command" in describe_place(cm, p) or "command" in describe_place(cm, p))) or any(c.name in ("replace", "set") for c in cm.calls), "CommandLane::command/stores-value", where(cm),
                "command() stores the value and marks the lane dirty")
        n = 0
        for b in ag.all_bodies():
            if b.meta.get("name") != "step" or "lanes::command" not in b.defpath:
                continue
            cs = [c for c in b.calls if c.is_method(CL, "command")]
            if not cs:
                continue
            n += 1
            mods = [x for x in b.calls if x.is_method("event_handler::Modification", "of")]
            ok, wit = b.must_pass(b.succ[cs[0].block], {x.block for x in mods})
            r.check(ok and bool(mods), "%s/command=>Modification::of" % (b.meta.get("self_adt") or "?").split("::")[-1], cs[0].loc(), "each command reports Modification::of: the on_command handler is triggered exactly once for it",
                    "a command can be stored without triggering its handler")
        if n < 1:
            raise AnchorMissing("no handler step calling CommandLane::command")

    with ctx.rule("C14.R7", "T11", "every received ad hoc command reaches CommandOutput::append (or the pending queue)", floor=3) as r:
        et = [b for b in rt.all_bodies() if b.defpath.endswith("external_links::external_links_task::{closure#0}")]
        if len(et) != 1:
            raise AnchorMissing("external_links_task coroutine")
        b = ctx.saw(et[0])
        aps = [c for c in b.calls if c.is_method("external_links::CommandOutput", "append")]
        r.check(len(aps) >= 2, "external_links_task/append-sites", where(b), "%d append sites" % len(aps), "only %d CommandOutput::append sites left" % len(aps))
        for c in aps:
            d = describe_operand(b, c.args[3]) if len(c.args) > 3 else ""
            r.check("overwrite_permitted" in d or d in ("True", "False") or "overwrite" in d, "external_links_task/append/overwrite-flag", c.loc(), "the overwrite flag comes from the message (%s)" % d[:50], "append is called with overwrite flag %s" % d[:60])
        st = ag.fn(name="step", self_adt="event_handler::command::SendCommand") if ag.entries(name="step", self_adt="event_handler::command::SendCommand") else None
        if st is not None:
            ctx.saw(st)
            sc = [c for c in st.calls if c.name == "send_ad_hoc_command"]
            r.check(len(sc) == 1 and "overwrite_permitted" in describe_operand(st, sc[0].args[3]), "SendCommand::step/appends-one-record", where(st), "SendCommand sends one ad hoc command per step with its own overwrite flag")


    with ctx.rule("C14.R10", "T1+T7", "every frame is addressed with the lane it belongs to (the sender's lane name is set per frame, for the lane of that frame)", floor=7) as r:
        uplinks.frame_lane_name(r, ctx)


    with ctx.rule("C14.R11", "T5", "which agent-sent commands are marked overwritable: only the sends documented as such", floor=4) as r:
        # `overwrite_permitted` is what allows CommandOutput::append to supersede a pending record; the API decides it with a constant
        WANT = {"commander::Commander::<Context>::send": ("SendCommandById", "True", "documented: a later command to the same lane replaces one that has not been dispatched"),
                "commander::Commander::<Context>::send_queued": ("SendCommandById", "False", "documented: both messages will be sent"),
                "agent_lifecycle::utility::HandlerContext::<Agent>::send_command": ("SendCommand", "True", "ad hoc commands are overwritable (as Commander::send)")}
        found = {}
        for b in ag.all_bodies():
            if "::tests" in b.defpath:
                continue
            for c in b.calls:
                if c.name == "new" and ("commander::SendCommandById" in c.defpath or "event_handler::command::SendCommand" in c.defpath):
                    key = b.defpath.split("swimos_agent::")[-1]
                    found[key] = (b, c, describe_operand(b, c.args[-1]))
        for key, (kind, val, why) in sorted(WANT.items()):
            if key not in found:
                r.bad("%s/overwrite-flag" % key.split("::")[-1], "-", "the send API %s was not found" % key)
                continue
            b, c, got = found[key]
            ctx.saw(b)
            r.check(got == val, "%s/overwrite-flag=%s" % (key.split("::")[-1], val.lower()), c.loc(), "%s builds its command with overwrite_permitted = %s (%s)" % (key.split("::")[-1], val.lower(), why),
                    "%s builds its command with overwrite_permitted = %s (expected %s: %s): %s" % (key.split("::")[-1], got, val.lower(), why,
                                                                                                    "commands the caller asked to be queued can be superseded and are lost" if val == "False" else "the flag of this API has changed"))
        extra = sorted(set(found) - set(WANT))
        r.ok("send-apis/listed", "-", "the overwrite flag is decided in %d API functions%s" % (len(found), (" (not in the table, so not judged: %s)" % extra) if extra else ""))
        st = [b for b in ag.all_bodies() if "commander::SendCommandById" in b.defpath and b.meta.get("name") == "step"]
        if len(st) != 1:
            raise AnchorMissing("SendCommandById::step")
        st = ctx.saw(st[0])
        sc = [c for c in st.calls if c.name == "send_registered_command"]
        r.check(len(sc) == 1 and describe_operand(st, sc[0].args[-1]).endswith("overwrite_permitted") and describe_operand(st, sc[0].args[1]).endswith(".id"), "SendCommandById::step/own-id-and-flag", where(st),
                "the command is sent to the commander's own id with the flag it was built with", "SendCommandById::step sends %s" % [describe_operand(st, a) for c in sc for a in c.args])

    with ctx.rule("C14.R12", "T3", "the command decoder resumes a frame that arrives in pieces (state put back before asking for more input; shared with C10.R13)", floor=6) as r:
        from rules.common import take_and_restore_rule
        n = take_and_restore_rule(r, ctx.crate("swimos_agent_protocol"), ctx)
        if n < 6:
            raise AnchorMissing("take-and-restore decoders: expected at least 6 `Ok(None)` exits from non-initial states (CommandDecoder), found %d" % n)

    with ctx.rule("C14.R13", "T2", "commands written by a handler are handed to the command writer before the agent task ends", floor=3) as r:
        # Handlers write ad hoc commands into `command_buffer`; check_cmds / CommandWriter::write move the buffer to the command channel. A command
        # is `forwarded once` only if that hand-over happens on every path that leaves the handler - including the paths that stop the agent.
        ag = ctx.crate("swimos_agent")
        ra = [x for x in ag.all_bodies() if x.defpath.endswith("AgentTask::<ItemModel, Lifecycle>::run_agent::{closure#0}")]
        if len(ra) != 1:
            raise AnchorMissing("AgentTask::run_agent coroutine")
        ra = ctx.saw(ra[0])
        rh = sorted([c for c in ra.calls if c.name == "run_handler"], key=lambda c: c.block)
        hand = {c.block for c in ra.calls if c.name == "check_cmds"} | {c.block for c in ra.calls if c.name == "write" and "CommandWriter" in ((c.self_adt or "") + (c.defpath or ""))}
        if len(rh) < 6 or not hand:
            raise AnchorMissing("run_agent: expected the handler executions and the check_cmds hand-overs (found %d / %d)" % (len(rh), len(hand)))
        in_loop = [c for c in rh if any(ra.dominates(h, c.block) and h != c.block and ra.reaches(c.block, {h}) for h in range(ra.n))]
        after = [c for c in rh if c not in in_loop]
        def ok_edge(c):
            for si in ra.result_switches(c):
                ve = ra.variant_edges(si["block"]) or {}
                if "Ok" in ve:
                    return ve["Ok"]
            return None
        # (a) a handler that returns normally inside the loop: the buffer is handed over before the next event is awaited
        bad = []
        for c in in_loop:
            t = ok_edge(c)
            heads = {h for h in range(ra.n) if ra.dominates(h, c.block) and h != c.block and ra.reaches(c.block, {h})}
            if t is None or not ra.must_pass([t], hand, targets=set(ra.exits()) | heads)[0]:
                bad.append(c.line)
        r.check(not bad, "run_agent/handler-completes/commands-handed-over", where(ra), "%d handler executions in the event loop are followed by check_cmds" % len(in_loop),
                "after the handler executions at lines %s the command buffer is not handed to the writer: commands they sent wait for an unrelated later event" % bad)
        # (b) a handler that stops the agent (StopInstructed): its commands are still handed over
        stops = [si for si in ra.switches_on(lambda p_, si: True) if si.get("kind") == "disc" and (si.get("adt") or "").endswith("EventHandlerError") and "StopInstructed" in (ra.variant_edges(si["block"]) or {})]
        lost = [si["block"] for si in stops if any(ra.dominates(c.block, si["block"]) for c in in_loop) and ra.path_avoiding([ra.variant_edges(si["block"])["StopInstructed"]], set(ra.exits()), avoid=hand) is not None]
        r.check(not lost, "run_agent/handler-stops-the-agent/commands-handed-over", where(ra), "a handler that ends with StopInstructed has its commands handed over first",
                "%d of %d handler executions leave through StopInstructed without check_cmds: a handler that sends a command and then stops the agent loses that command" % (len(lost), len(stops)))
        # (c) on_stop (the handler executed after the loop) and whatever is still queued or in flight when the loop ends
        for c in after:
            t = ok_edge(c)
            r.check(t is not None and ra.must_pass([t], hand, targets=set(ra.exits()))[0], "run_agent/on_stop/commands-handed-over", c.loc(), "the commands of the handler run after the loop are handed to the writer",
                    "run_agent returns after the on_stop handler without handing command_buffer to the writer: commands sent from on_stop - and any command still queued behind or cut by an in-flight write when the loop ended - are never forwarded")
        if not after:
            raise AnchorMissing("run_agent: no handler execution after the event loop (on_stop)")

    with ctx.rule("C14.R15", "T2", "the sender lent out of Uplinks.writer always comes back: as a WriteTask or into the slot (shared with C01.R7)", floor=4) as r:
        # a sender that is dropped leaves the remote attached and linked while nothing is ever written to it again (F61)
        uplinks.writer_token(r, ctx)

    with ctx.rule("C14.R17", "T2", "CommandOutput::write hands the buffer of every dirty target to the channel writer before it forgets which targets are dirty", floor=1) as r:
        # `dirty` lists the targets whose lane buffers hold commands that were appended while the channel writer was away. write() either walks the
        # whole list (drain) or - the fast path - swaps in the buffer of the first entry and clears the list; the latter is everything only when the
        # list has exactly one entry. Anything else strands the other targets' commands in buffers nobody will look at again.
        co = [b for b in rt.all_bodies() if b.meta.get("name") == "write" and (b.meta.get("self_adt") or "").endswith("external_links::CommandOutput")]
        if len(co) != 1:
            raise AnchorMissing("CommandOutput::write (found %d)" % len(co))
        co = ctx.saw(co[0])
        clears = [c for c in co.calls if c.name in ("clear", "truncate") and c.args and describe_operand(co, c.args[0]).endswith("dirty")]
        drains = [c for c in co.calls if c.name in ("drain", "into_iter", "iter") and c.args and "dirty" in describe_operand(co, c.args[0])]
        if not clears and not drains:
            raise AnchorMissing("CommandOutput::write: where `dirty` is emptied")
        for k_, c in enumerate(clears):
            g = guards_with_sources(co, c.block)
            one = any(re.match(r"^Eq\(", d) and "len(" in src and "dirty" in src and re.search(r"(^|[ ,(])1([ ,)]|$)", d) and l == "true" for d, l, _, src in g)
            r.check(one, "CommandOutput/write/clear-of-dirty#%d/only-when-it-has-one-entry" % k_, c.loc(), "the list is cleared without being walked only when it has exactly one entry",
                    "CommandOutput::write clears `dirty` after handing over the first entry only, under a test that does not say the list has one entry: with targets queued as A, B, A the commands "
                    "for B stay in B's lane buffer, no longer marked dirty - they are never sent (and are destroyed when the output times out)")
        if not clears:
            r.ok("CommandOutput/write/dirty-walked", where(co), "every entry of `dirty` is walked (no fast path)")

    with ctx.rule("C14.R16", "T2", "a lane event is handed to every remote linked to the lane, whether or not an earlier remote's writer is busy", floor=2) as r:
        _rt = ctx.crate("swimos_runtime")
        _he = ctx.saw(_rt.fn(name="handle_event", self_adt="task::WriteTaskState"))
        uplinks.broadcast_visits_every_target(r, ctx, _rt, _he)




def _assign_operand(body, block, suffix):
    for i, j, p, rv, line in body.assigns():
        if i == block and p[1] and describe_place(body, p).endswith(suffix) and rv[0] == "use":
            return rv[1]
    return ["k", {}]
