"""C08 Downlink local state equals the fold of what it received."""
import re
import collections
from mirlib import describe_rvalue, AnchorMissing, describe_call, describe_operand, dom_guards, guards, _suffix_match
from rules.common import guard_mentions, assign_roles_by_type, aggregates, owner_def, panic_sites, where

META = {
    "explanation": (
        "C08: in both downlink implementations (stand-alone client, agent-hosted) applying a notification to the local state must not "
        "depend on whether lifecycle callbacks are dispatched, while every callback must. R1 control-dependence of state mutations / "
        "callbacks on the dispatch condition, per message variant, in the client map and value tasks and the hosted map and value "
        "downlinks; R2 sibling cross-check: for the messages a lane can produce (update/remove/clear) both implementations reach the same "
        "callbacks; R3 on_synced fires on the Linked->Synced transition with the state of that moment; R4 unlinked handling; "
        "R5 panic audit of the notification handlers. R9 every site that leaves the linked states (Unlinked notification, read failure, connect) empties the hosted downlink's state."
),
    "does_not_decide": "equality with a reference fold for all sequences; that old/new values are right beyond 'the value returned by the mutation is the one passed'",
}

DL = "swimos_downlink"
AG = "swimos_agent"
MUT = {"insert", "remove", "take", "clear", "retain", "split_off", "append", "extend", "pop_first", "pop_last", "replace", "drain", "remove_entry", "swap"}
CALLBACKS = {"on_update", "on_remove", "on_clear", "on_event", "on_set"}


def variant_of(g, scrut_word):
    for d, l, _ in g:
        if d.startswith("disc(") and scrut_word in d and l not in ("Some", "None", "Ok", "Err"):
            return l
    return None


# canonical names for the locals of the client tasks, by type (so that the rules do not depend on what the source calls them)
CLIENT_ROLES = [
    ("state", lambda t: t.startswith("swimos_downlink::task::map::State<") or t.startswith("swimos_downlink::task::value::State<")),
    ("notification", lambda t: "::DownlinkNotification<" in t and not t.startswith("core::") and not t.startswith("(")),
    ("event", lambda t: "task::map::IoEvent<" in t or "task::value::IoEvent<" in t or t.startswith("swimos_agent_protocol::model::MapMessage<")),
    ("map", lambda t: t.startswith("alloc::collections::btree::map::BTreeMap<")),
]


def run(ctx):
    dl = ctx.crate(DL)
    ag = ctx.crate(AG)
    for b in dl.all_bodies():
        if "::task::map::" in b.defpath or "::task::value::" in b.defpath:
            assign_roles_by_type(b, CLIENT_ROLES)

    # ---- R1a client map -------------------------------------------------------------------
    client_cb = {}
    with ctx.rule("C08.R1a", "T6", "client map downlink: state mutation independent of `dispatch`, callbacks dependent on it", floor=10) as r:
        b = ctx.saw(dl.fn(suffix="task::map::on_event::{closure#0}"))
        per = {}
        for c in b.calls:
            if not c.args:
                continue
            g = guards(b, c.block)
            v = variant_of(g, "event")
            if v is None:
                continue
            a0 = describe_operand(b, c.args[0])
            on_dispatch = [l for d, l, _ in g if d == "dispatch"]
            if c.via_name in CALLBACKS and "lifecycle" in a0:
                per.setdefault(v, {"mut": [], "cb": []})["cb"].append((c, on_dispatch))
            elif (c.name in MUT or c.via_name in MUT) and (a0 == "map" or a0.startswith("map")) and "Iterator" not in (c.trait or ""):
                per.setdefault(v, {"mut": [], "cb": []})["mut"].append((c, on_dispatch))
        # Take / Drop split the old map by *consuming an iterator over it*: advancing that iterator is part of the
        # state change (the entries it yields are the ones kept or discarded) and must not depend on dispatch either
        for c in b.calls:
            if c.via_name == "next" and c.args and any(s_[0] == "call" and s_[1].name == "take" and "core::mem" in s_[1].defpath for s_ in b.sources(c.args[0], stop_at_calls=False)):
                g = guards(b, c.block)
                v = variant_of(g, "event") or "?"
                od = [l for d, l, _ in g if d == "dispatch"]
                # only relevant if entries are (re-)inserted into the map afterwards: which entries the iterator still
                # holds at that point decides the new state
                ins_after = [x for x in b.calls if x.name == "insert" and x.args and describe_operand(b, x.args[0]) == "map" and x.block in b.reachable_from([c.block])
                             and variant_of(guards(b, x.block), "event") == v]
                if not ins_after:
                    continue
                r.check(not od, "client-map/%s/old-map-iterated-unconditionally" % v, c.loc(), "the iterator over the old map is advanced whatever `dispatch` is",
                        "for MapMessage::%s the iterator over the old map is only advanced when `dispatch` is true: with callbacks suppressed the entries are not dropped and the replica diverges" % v)
        for v in ("Update", "Remove", "Clear", "Take", "Drop"):
            if v not in per or not per[v]["mut"]:
                r.bad("client-map/%s/mutates" % v, where(b), "no state mutation found for MapMessage::%s" % v)
                continue
            free = [c for c, od in per[v]["mut"] if not od]
            r.check(bool(free) and (v not in ("Clear",) or all(not od for c, od in per[v]["mut"])), "client-map/%s/mutation-unconditional" % v, per[v]["mut"][0][0].loc(),
                    "MapMessage::%s mutates the map whatever `dispatch` is (%s)" % (v, ", ".join(c.name for c, _ in per[v]["mut"])),
                    "MapMessage::%s changes the map only when `dispatch` is true: with events_when_not_synced = false (the default) the message is ignored before Synced and on_synced sees a stale map" % v)
            # ... and whatever the map holds: a message is never skipped because it seems to change nothing (`if map.get(&k) != Some(&v) { .. }`): the
            # callback chain old -> new must have a step for every message received, as the hosted downlink's has
            for c, od in per[v]["mut"] + per[v]["cb"]:
                cmpg = [d for d, l, _ in guards(b, c.block) if re.match(r"^(eq|ne|Eq|Ne)\(", d) and ("map" in d or "value" in d)]
                r.check(not cmpg, "client-map/%s/%s-not-skipped-by-content" % (v, c.via_name or c.name), c.loc(), "%s does not depend on what the map already holds" % (c.via_name or c.name),
                        "for MapMessage::%s %s depends on `%s`: a message that repeats the held value (every echo of a local write) is dropped without its callback - the user's view of the sequence of updates skips steps and differs from the hosted downlink's" % (v, c.via_name or c.name, cmpg[0][:70] if cmpg else ""))
            client_cb[v] = sorted({c.via_name for c, _ in per[v]["cb"]})
            for c, od in per[v]["cb"]:
                r.check(od == ["true"], "client-map/%s/%s-dispatched" % (v, c.via_name), c.loc(), "%s is called only when dispatch is true" % c.via_name,
                        "%s for MapMessage::%s is called whatever `dispatch` is: callbacks fire before sync although events_when_not_synced is off" % (c.via_name, v))

    # ---- R1b hosted map ---------------------------------------------------------------------
    hosted_cb = {}
    with ctx.rule("C08.R1b", "T6", "hosted map downlink: MapDlState mutators run unconditionally; callbacks only with a lifecycle", floor=10) as r:
        ne = ctx.saw(ag.fn(name="next_event", self_adt="hosted::map::HostedMapDownlink"))
        want = {"Update": "update", "Remove": "remove", "Clear": "clear", "Take": "take", "Drop": "drop"}
        seen = {}
        for c in ne.calls:
            if _suffix_match(c.callee.get("self_adt"), "hosted::map::MapDlState") and c.name in want.values():
                g = guards(ne, c.block)
                v = variant_of(g, "body") or variant_of(g, "notification") or "?"
                cond = [(d, l) for d, l, _ in g if "events_when_not_synced" in d or "dl_state" in d or "DlState" in d]
                if v in want:
                    seen[v] = c
                    r.check(c.name == want[v], "hosted-map/%s/routes-to-%s" % (v, want[v]), c.loc(), "MapMessage::%s -> state.%s" % (v, c.name), "MapMessage::%s routed to state.%s" % (v, c.name))
                    r.check(not cond, "hosted-map/%s/mutation-unconditional" % v, c.loc(), "state.%s is applied whether or not callbacks are enabled" % c.name,
                            "state.%s is applied only under %s" % (c.name, cond))
        for v in want:
            if v not in seen:
                r.bad("hosted-map/%s/applied" % v, where(ne), "MapMessage::%s is not applied to the state" % v)
        # inside MapDlState methods
        for v, m in want.items():
            if m == "clear":
                hosted_cb.setdefault(v, set())
                continue
            fn = ag.fn(name=m, self_adt="hosted::map::MapDlState")
            bodies = [fn] + ag.closures_of(fn.defpath)
            muts, cbs = [], []
            for bb in bodies:
                ctx.saw(bb)
                nested = bb.defpath.count("{closure") >= 2
                for c in bb.calls:
                    if not c.args:
                        continue
                    g = guards(bb, c.block)
                    lc = [(d, l) for d, l, _ in g if "lifecycle" in d]
                    a0 = describe_operand(bb, c.args[0])
                    if c.via_name in CALLBACKS:
                        cbs.append((bb, c, lc, nested))
                    elif (c.via_name in MUT or c.name in MUT) and ("map" in a0) and "Iterator" not in (c.trait or "") and "Option" not in c.defpath:
                        muts.append((bb, c, lc, nested))
            free = any(not lc and not nested for _, _, lc, nested in muts)
            both = any(any(l == "None" for d, l in lc) for _, _, lc, nested in muts if not nested) and any(any(l == "Some" for d, l in lc) for _, _, lc, nested in muts if not nested)
            r.check(bool(muts) and (free or both), "hosted-map/%s/state-mutated-without-lifecycle" % v, where(fn),
                    "MapDlState::%s mutates the map on a path that does not depend on the lifecycle being present (%s)" % (m, ", ".join(sorted({c.via_name or c.name for _, c, _, _ in muts}))),
                    "MapDlState::%s only mutates the map when a lifecycle is present" % m)
            # every path: both the Some and the None lifecycle edges mutate
            for bb, c, lc, nested in cbs:
                r.check(nested or any(l == "Some" for d, l in lc), "hosted-map/%s/%s-needs-lifecycle" % (v, c.via_name), c.loc(), "%s is reached only with a lifecycle" % c.via_name,
                        "%s is invoked without testing that callbacks are enabled" % c.via_name)
            hosted_cb[v] = {c.via_name for _, c, _, _ in cbs}
        for c in ne.calls:
            if c.via_name == "on_clear":
                hosted_cb.setdefault("Clear", set()).add("on_clear")
        for cb in ag.closures_of(ne.defpath):
            for c in cb.calls:
                if c.via_name == "on_clear":
                    hosted_cb.setdefault("Clear", set()).add("on_clear")

    # ---- R1c / R1d value downlinks -------------------------------------------------------------
    with ctx.rule("C08.R1c", "T6", "client value downlink: the new value is stored whether or not events are dispatched", floor=3) as r:
        b = ctx.saw(dl.fn(suffix="task::value::on_read::{closure#0}"))
        states = [a for a in aggregates(b, "task::value::State")]
        n = 0
        for (blk, idx, ops, line, variant, dest) in states:
            g = guards(b, blk)
            if not any("notification" in d and l == "Event" for d, l, _ in g):
                continue
            if not ops:
                continue  # a state without a value (Unlinked written back as it was)
            n += 1
            cond = [(d, l) for d, l, _ in g if "events_when_not_synced" in d]
            r.check(not cond, "client-value/Event/State::%s-unconditional" % variant, b.loc(line), "State::%s(body) is stored whatever events_when_not_synced is" % variant,
                    "the received value is stored only when events_when_not_synced: %s" % cond)
            src = describe_operand(b, ops[0]) if ops else ""
            r.check("body" in src, "client-value/Event/State::%s-holds-body" % variant, b.loc(line), "the stored value is the event body (%s)" % src[:60], "the stored value is %s" % src[:80])
        if n < 2:
            raise AnchorMissing("client value on_read: expected State::Linked and State::Synced constructions on the Event edge, found %d" % n)
        for c in b.calls:
            if c.via_name in ("on_event", "on_set"):
                g = guards(b, c.block)
                st = [l for d, l, _ in g if d.startswith("disc(state") or d == "disc(state)"]
                if "Linked" in st:
                    r.check(any("events_when_not_synced" in d and l == "true" for d, l, _ in g), "client-value/Linked/%s-dispatched" % c.via_name, c.loc(),
                            "%s before sync only when events_when_not_synced" % c.via_name, "%s fires before sync although events_when_not_synced is off" % c.via_name)

    with ctx.rule("C08.R1d", "T6", "hosted value downlink: take_current/replace unconditional, callbacks conditional", floor=3) as r:
        ne = ctx.saw(ag.fn(name="next_event", self_adt="hosted::value::HostedValueDownlink"))
        reps = [c for c in ne.calls if c.name in ("replace", "take_current") and "state" in describe_operand(ne, c.args[0])]
        if len(reps) < 2:
            raise AnchorMissing("hosted value next_event: take_current/replace not found")
        for c in reps:
            g = guards(ne, c.block)
            cond = [(d, l) for d, l, _ in g if "events_when_not_synced" in d or "dl_state" in d or "DlState" in d]
            r.check(not cond, "hosted-value/Event/%s-unconditional" % c.name, c.loc(), "state.%s runs whether or not callbacks are enabled" % c.name, "state.%s only under %s" % (c.name, cond))
        for c in ne.calls:
            if c.via_name in ("on_event", "on_set"):
                g = guards(ne, c.block)
                r.check(any(("events_when_not_synced" in d or "Synced" in d or "dl_state" in d) for d, l, _ in g) or guard_mentions(ne, c.block, ("events_when_not_synced", "dl_state", "DlState")), "hosted-value/%s-conditional" % c.via_name, c.loc(),
                        "%s depends on synced || events_when_not_synced" % c.via_name, "%s fires unconditionally" % c.via_name)

    # ---- R2 siblings ---------------------------------------------------------------------------
    with ctx.rule("C08.R2", "T5", "client and hosted map downlinks reach the same callbacks for every message a lane can produce", floor=3) as r:
        for v in ("Update", "Remove", "Clear"):
            a = set(client_cb.get(v, []))
            h = set(hosted_cb.get(v, set()))
            r.check(a == h and bool(a), "siblings/%s" % v, "-", "MapMessage::%s -> %s in both implementations" % (v, sorted(a)),
                    "MapMessage::%s reaches %s in the client but %s in the hosted downlink" % (v, sorted(a), sorted(h)))
        for v in ("Take", "Drop"):
            a = set(client_cb.get(v, []))
            h = set(hosted_cb.get(v, set()))
            if a != h:
                ctx.notes.append("informational: MapMessage::%s (never produced by a lane) reaches %s in the client and %s in the hosted downlink" % (v, sorted(a), sorted(h)))

    # ---- R3 on_synced ----------------------------------------------------------------------------
    with ctx.rule("C08.R3", "T1", "on_synced fires exactly on Linked -> Synced and sees the state of that moment", floor=3) as r:
        b = ctx.saw(dl.fn(suffix="task::map::on_read::{closure#0}"))
        syn = [c for c in b.calls if c.via_name == "on_synced"]
        if len(syn) != 1:
            raise AnchorMissing("client map on_read: expected one on_synced call")
        g = guards(b, syn[0].block)
        r.check(any(l == "Synced" for d, l, _ in g) and any("state" in d and l == "Linked" for d, l, _ in g), "client-map/on_synced-only-from-Linked", syn[0].loc(),
                "on_synced only for a Synced notification in state Linked", "on_synced not restricted to the Linked -> Synced transition: %s" % [(d, l) for d, l, _ in g])
        arg = describe_operand(b, syn[0].args[1])
        r.check("state" in arg and "Linked" in arg, "client-map/on_synced-arg", syn[0].loc(), "on_synced receives the map held in State::Linked (%s)" % arg, "on_synced receives %s" % arg)
        synced = [a for a in aggregates(b, "task::map::State", "Synced")]
        r.check(bool(synced) and all("Linked" in describe_operand(b, a[2][0]) for a in synced), "client-map/Synced-keeps-map", where(b), "State::Synced is built from the same map", "State::Synced built from something else")
        bv = ctx.saw(dl.fn(suffix="task::value::on_read::{closure#0}"))
        syn = [c for c in bv.calls if c.via_name == "on_synced"]
        r.check(len(syn) == 1 and any("state" in d and l == "Linked" for d, l, _ in guards(bv, syn[0].block)), "client-value/on_synced-only-from-Linked", where(bv), "value on_synced only from Linked(Some(v))")
        hn = ag.fn(name="next_event", self_adt="hosted::map::HostedMapDownlink")
        sets = [c for c in hn.calls if c.name == "set" and "dl_state" in describe_operand(hn, c.args[0]) and "Synced" in describe_operand(hn, c.args[1])]
        r.check(len(sets) == 1 and any(l == "Synced" for d, l, _ in guards(hn, sets[0].block)), "hosted-map/Synced-sets-dl_state", where(hn), "hosted: Synced notification sets dl_state = Synced")
        hs = [c for cb in [hn] + ag.closures_of(hn.defpath) for c in cb.calls if c.via_name == "on_synced"]
        r.check(len(hs) == 1, "hosted-map/on_synced-once", where(hn), "hosted: one on_synced call site (inside state.with)")

    # ---- R4 unlinked -------------------------------------------------------------------------------
    with ctx.rule("C08.R4", "T2", "Unlinked: on_unlinked, then terminate or become Unlinked; hosted clears its map", floor=3) as r:
        b = dl.fn(suffix="task::map::on_read::{closure#0}")
        un = [c for c in b.calls if c.via_name == "on_unlinked"]
        r.check(len(un) == 1 and not any("terminate_on_unlinked" in d for d, l, _ in guards(b, un[0].block)), "client-map/on_unlinked-unconditional", where(b), "on_unlinked is called for every Unlinked notification")
        term = [a for a in aggregates(b, "task::map::Step", "Terminate")]
        r.check(bool(term) and all(any("terminate_on_unlinked" in d and l == "true" for d, l, _ in guards(b, a[0])) for a in term), "client-map/terminate-iff-configured", where(b),
                "Step::Terminate only when terminate_on_unlinked")
        st = [a for a in aggregates(b, "task::map::State", "Unlinked") if any(l == "Unlinked" and "notification" in d for d, l, _ in guards(b, a[0]))]
        r.check(bool(st), "client-map/state:=Unlinked", where(b), "otherwise the state becomes Unlinked")
        hn = ag.fn(name="next_event", self_adt="hosted::map::HostedMapDownlink")
        clr = [c for c in hn.calls if c.is_method("hosted::map::MapDlState", "clear") and any(l == "Unlinked" for d, l, _ in guards(hn, c.block))]
        r.check(len(clr) >= 1 and all(not any("terminate" in d for d, l, _ in guards(hn, c.block)) for c in clr), "hosted-map/unlinked-clears-state", where(hn), "hosted: state.clear() on every Unlinked")

    # ---- R5 panic audit ------------------------------------------------------------------------------
    with ctx.rule("C08.R5", "T9", "notification handlers do not panic on any sequence (allow-list with reasons)", floor=4) as r:
        allow = {
            ("hosted-map", "expect"): "u64 -> usize try_into cannot fail on the 64-bit targets this builds for",
            ("hosted-map-update", "index"): "`&map[&key]` directly after map.insert(key.clone(), ..): the key is present",
        }
        scopes = [
            ("client-map", [dl.fn(suffix="task::map::on_event::{closure#0}"), dl.fn(suffix="task::map::on_read::{closure#0}")]),
            ("client-value", [dl.fn(suffix="task::value::on_read::{closure#0}")]),
            ("hosted-map", [ag.fn(name="next_event", self_adt="hosted::map::HostedMapDownlink")]),
            ("hosted-value", [ag.fn(name="next_event", self_adt="hosted::value::HostedValueDownlink")]),
        ]
        for m in ("update", "remove", "drop", "take"):
            fn = ag.fn(name=m, self_adt="hosted::map::MapDlState")
            scopes.append(("hosted-map-" + m, [fn] + ag.closures_of(fn.defpath)))
        for tag, bodies in scopes:
            sites = []
            for b in bodies:
                for kind, desc, line, blk in panic_sites(b):
                    sites.append((b, kind, desc, line))
            if not sites:
                r.ok("%s/no-panic-sites" % tag, where(bodies[0]), "no unwrap/expect/panic!/index/bounds assertion in the handler")
            for b, kind, desc, line in sites:
                why = allow.get((tag, kind))
                if kind == "index" and "map" not in desc:
                    why = why or None
                r.check(why is not None, "%s/%s" % (tag, kind), b.loc(line), "%s %s: %s" % (kind, desc[:60], why), "potential panic (%s %s) in a notification handler, not in the allow-list" % (kind, desc[:80]))

    with ctx.rule("C08.R1e", "T4", "the state of a client downlink is changed only by the notifications it receives", floor=2) as r:
        # who-may-mutate: inside the IO loops only on_read (and what it calls) may touch the state; a command written by the
        # local handle has not been seen by the lane yet and must not be folded into the state the callbacks report against
        for nm in ("map", "value"):
            b = [x for x in dl.all_bodies() if x.defpath.endswith("task::%s::run_io::{closure#0}" % nm)]
            if len(b) != 1:
                raise AnchorMissing("client %s run_io" % nm)
            b = ctx.saw(b[0])
            muts = []
            for c in b.calls:
                if c.name in ("insert", "remove", "clear", "retain", "replace", "extend", "append", "pop_first", "pop_last") and c.args:
                    root = b.resolve(c.args[0][1]) if c.args[0][0] in ("c", "m") else None
                    d = describe_operand(b, c.args[0])
                    if d == "map" or "state" in d or (root is not None and b.root_name(root) == "state"):
                        g = [l for dd, l, _ in dom_guards(b, c.block) if dd.startswith("disc(event")]
                        muts.append((c, g))
            for i, j, p, rv, line in b.assigns():
                if p[1] and p[1][0] == "*" and b.root_name(b.resolve(p)) == "state" and b.resolve(p).fields:
                    muts.append((None, [str(line)]))
            writes = [(c, g) for c, g in muts if c is None or "Write" in g]
            r.check(not writes, "client-%s/run_io/state-mutated-only-by-notifications" % nm, where(b), "no state mutation in the local-write arm of the IO loop",
                    "the IO loop applies a local command to the downlink state (%s) before the lane has echoed it: callbacks for the next notification report the un-echoed local value as the previous value, and the state is no longer the fold of what was received" % ", ".join(sorted({c.name for c, g in writes if c is not None})))


    with ctx.rule("C08.R2b", "T1", "callbacks that receive the map see it whole: survivors of a Take/Drop are restored before the removals are reported", floor=2) as r:
        oe = ctx.saw(dl.fn(suffix="task::map::on_event::{closure#0}"))
        for var in ("Take", "Drop"):
            in_arm = lambda c: any(d == "disc(event)" and l == var for d, l, _ in dom_guards(oe, c.block))
            taken = [c for c in oe.calls if c.name == "take" and "core::mem" in c.defpath and in_arm(c)]
            # survivors go back by insert, extend or append; the callbacks may sit in a helper (analysed in place)
            ins = [c for c in oe.calls if c.name in ("insert", "extend", "append") and c.args and describe_operand(oe, c.args[0]).lstrip("&").replace("mut ", "") == "map" and in_arm(c)]
            cbs = [c for c in oe.calls if c.via_name in ("on_remove", "on_update") and in_arm(c)]
            if not taken or not ins or not cbs:
                raise AnchorMissing("client on_event %s arm: mem::take %d / re-insert %d / callbacks %d" % (var, len(taken), len(ins), len(cbs)))
            for c in cbs:
                late = [i for i in ins if oe.reaches(c.block, {i.block})]
                r.check(not late, "client-map/%s/callbacks-after-survivors-restored" % var, c.loc(), "on_remove runs after the surviving entries were put back into the map it is given",
                        "on_remove is called while the map is still emptied by mem::take (survivors are re-inserted at line %d afterwards): the handler is given a map without the remaining entries" % late[0].line if late else "")


    with ctx.rule("C08.R6", "T5", "configuration flags reach the notification handlers in the right position at every call site", floor=4) as r:
        # Several handlers take adjacent flags of the same type (events_when_not_synced, terminate_on_unlinked, dispatch ...).
        # At every call of a crate-local function, a named argument whose name is the name of a *different* parameter of the callee
        # is a swapped argument; and all call sites of one callee inside one task body must pass the same expression for a flag.
        def last_name(d):
            m_ = re.search(r"([A-Za-z_][A-Za-z0-9_]*)$", d)
            return m_.group(1) if m_ else None
        n = 0
        for crate, pref in ((dl, "swimos_downlink::task::"), (ag, "swimos_agent::downlink_lifecycle"), (ag, "swimos_agent::agent_model::downlink::hosted")):
            by_def = {b.defpath: b for b in crate.all_bodies()}
            for b in crate.all_bodies():
                if pref not in b.defpath or "::tests" in b.defpath:
                    continue
                sites = {}
                for c in b.calls:
                    cal = by_def.get(c.defpath)
                    if cal is None or cal.argc < 2 or c.exp:
                        continue
                    pnames = [cal.var_name(i) for i in range(1, cal.argc + 1)]
                    if len([p for p in pnames if p]) < 2:
                        continue
                    anames = []
                    for k, a in enumerate(c.args[:cal.argc]):
                        d = describe_operand(b, a)
                        anames.append((d, last_name(d) if re.match(r"^[A-Za-z_][A-Za-z0-9_.]*$", d) else None))
                    flagged = False
                    for k, (d, an) in enumerate(anames):
                        if an and pnames[k] and an != pnames[k] and an in pnames:
                            flagged = True
                            r.bad("%s/%s(arg %d)" % (b.defpath.split("::{")[0].split("::")[-1], c.name, k), c.loc(),
                                  "argument `%s` is passed for parameter `%s` of %s, which has another parameter called `%s`: swapped arguments (the two flags change places at this call site only)" % (d, pnames[k], c.name, an))
                    named = [(k, an) for k, (d, an) in enumerate(anames) if an and pnames[k] and an in pnames]
                    if named and not flagged:
                        n += 1
                        ctx.saw(b)
                        r.ok("%s/%s@%s" % (b.defpath.split("::{")[0].split("::")[-1], c.name, "+".join(pnames[k] for k, _ in named)), c.loc(), "named arguments match the callee's parameter names (%s)" % ", ".join(an for _, an in named))
                    sites.setdefault(c.defpath, []).append([d for d, _ in anames])
                for dp, lst in sites.items():
                    if len(lst) > 1:
                        cal = by_def[dp]
                        for k in range(min(len(x) for x in lst)):
                            vals = {x[k] for x in lst}
                            pn = cal.var_name(k + 1)
                            if pn and all(re.match(r"^[A-Za-z_][A-Za-z0-9_.]*$", v) and v not in ("True", "False") for v in vals) and all("config" in v for v in vals):
                                r.check(len(vals) == 1, "%s/%s/param-%s-same-at-all-sites" % (b.defpath.split("::{")[0].split("::")[-1], dp.split("::")[-1], pn), where(b), "every call passes %s for `%s`" % (sorted(vals)[0], pn),
                                        "the call sites of %s pass different values for `%s`: %s" % (dp.split("::")[-1], pn, sorted(vals)))
        if n < 2:
            raise AnchorMissing("expected >= 2 call sites with named flag arguments, found %d" % n)

    with ctx.rule("C08.R7", "T10+T2", "hosted downlinks: the session state follows the notifications (transition table per notification, same for value and map; an unlink always leaves the linked states)", floor=12) as r:
        def transitions(b):
            """arm -> set of DlState values written to self.dl_state in that arm (directly or in a closure built in the arm), plus the set call sites"""
            tab = collections.defaultdict(set)
            sites = collections.defaultdict(list)

            def arm_of(blk):
                arm = None
                for d, l, _ in dom_guards(b, blk):
                    if d.startswith("disc(take(self.next)<Some>.0)") and l == "Err":
                        arm = "Err"
                    if d.startswith("disc(take(self.next)<Some>.0<Ok>.0)"):
                        arm = l
                return arm
            for c in b.calls:
                if c.name == "set" and describe_operand(b, c.args[0]).endswith("dl_state"):
                    a = arm_of(c.block)
                    tab[a].add(describe_operand(b, c.args[1]).replace("DlState::", "").replace("()", ""))
                    sites[a].append(c.block)
            for cb in ag.closures_of(b.defpath):
                vals = [describe_operand(cb, c.args[1]).replace("DlState::", "").replace("()", "") for c in cb.calls if c.name == "set" and describe_operand(cb, c.args[0]).endswith("dl_state")]
                if not vals:
                    continue
                # where is this closure built?
                for i, j, p, rv, line in b.assigns():
                    if rv[0] == "agg" and (rv[1].get("closure") or rv[1].get("coroutine") or "") == cb.defpath:
                        a = arm_of(i)
                        tab[a] |= set(vals)
                        sites[a].append(i)
            return tab, sites
        EXPECT = {"Linked": {"Linked"}, "Synced": {"Synced"}, "Event": set(), "Unlinked": {"Stopped", "Unlinked"}, "Err": {"Stopped", "Unlinked"}}
        tabs = {}
        for kind, adt in (("value", "hosted::value::HostedValueDownlink"), ("map", "hosted::map::HostedMapDownlink")):
            hn = ctx.saw(ag.fn(name="next_event", self_adt=adt))
            tab, sites = transitions(hn)
            tabs[kind] = tab
            for arm, want in sorted(EXPECT.items()):
                got = tab.get(arm, set())
                r.check(got == want, "hosted-%s/%s/state-after" % (kind, arm), where(hn), "%s -> dl_state in %s" % (arm, sorted(want) or "unchanged"),
                        "on %s the hosted %s downlink sets dl_state to %s (expected %s): it keeps believing it is in the old state - after an unlink that means events of the next session are treated as synced and a second on_unlinked is injected at stop" % (arm, kind, sorted(got) or "nothing", sorted(want)))
            # an unlink (or a failure) leaves the linked states on every path
            for arm in ("Unlinked", "Err"):
                sw = [si for si in hn.switches_on(lambda p, si: True) if si.get("kind") == "disc" and arm in (hn.variant_edges(si["block"]) or {}) and ("Ok" in (hn.variant_edges(si["block"]) or {}) if arm == "Err" else "Linked" in (hn.variant_edges(si["block"]) or {}))]
                if not sw:
                    r.bad("hosted-%s/%s/every-path-leaves-linked" % (kind, arm), where(hn), "no match arm for %s found" % arm)
                    continue
                start = hn.variant_edges(sw[0]["block"])[arm]
                ok, wit = hn.must_pass([start], set(sites.get(arm, [])))
                r.check(ok and bool(sites.get(arm)), "hosted-%s/%s/every-path-leaves-linked" % (kind, arm), where(hn), "every path of the %s arm moves dl_state to Stopped or Unlinked" % arm,
                        "a path of the %s arm leaves dl_state as it was (%s): the downlink stays 'linked'/'synced' after the link has gone" % (arm, wit))
            lk = [c for c in hn.calls if c.name == "set" and "Linked" in describe_operand(hn, c.args[1]) and "Unlinked" not in describe_operand(hn, c.args[1])]
            r.check(len(lk) == 1 and any("DlState::Unlinked" in d and l == "true" for d, l, _ in dom_guards(hn, lk[0].block)), "hosted-%s/Linked/only-from-Unlinked" % kind, where(hn),
                    "a linked notification moves the state to Linked only from Unlinked (it does not demote Synced)")
        for arm in sorted(EXPECT):
            r.check(tabs["value"].get(arm, set()) == tabs["map"].get(arm, set()), "hosted-value=hosted-map/%s" % arm, "-", "value and map downlinks make the same transition on %s" % arm,
                    "on %s the value downlink sets %s, the map downlink %s" % (arm, sorted(tabs["value"].get(arm, set())), sorted(tabs["map"].get(arm, set()))))

    with ctx.rule("C08.R9", "T3", "hosted downlinks: whenever the session ends or the link is re-established the local state is emptied (no entry of an old session is folded into the next)", floor=6) as r:
        # every site that moves dl_state to Unlinked / Stopped - the Unlinked notification, a read failure, and connect() after a write failure, which
        # no notification announces - clears self.state on the same path; otherwise synced/updates of the next session are reported against stale entries
        for kind, adt in (("value", "hosted::value::HostedValueDownlink"), ("map", "hosted::map::HostedMapDownlink")):
            n = 0
            for b in ag.all_bodies():
                if not _suffix_match(b.meta.get("self_adt") or "", adt) or "::{closure" in b.defpath:
                    continue
                sets = [c for c in b.calls if c.name == "set" and c.args and describe_operand(b, c.args[0]).endswith("dl_state") and
                        ("DlState::Unlinked" in describe_operand(b, c.args[1]) or "DlState::Stopped" in describe_operand(b, c.args[1]))]
                if not sets:
                    continue
                ctx.saw(b)
                clears = [c for c in b.calls if c.name == "clear" and c.args and (describe_operand(b, c.args[0]).endswith(".state") or describe_operand(b, c.args[0]).endswith("state"))
                          and "DlState" in ((c.self_adt or "") + (c.trait or ""))]
                cb = {c.block for c in clears}
                for k, c in enumerate(sorted(sets, key=lambda x: x.block)):
                    n += 1
                    before = any(b.dominates(x, c.block) for x in cb)
                    after, wit = b.must_pass([c.block], cb, targets=set(b.exits())) if cb else (False, None)
                    fn = b.meta.get("name")
                    r.check(before or after, "hosted-%s/%s/unlink#%d/state-cleared" % (kind, fn, k), c.loc(), "dl_state leaves the linked states and the state is emptied on the same path",
                            "%s moves the hosted %s downlink to %s without emptying its state: when the link is established again the new session's notifications are folded on top of the old entries (synced reports keys the lane never sent, on_update gets a stale previous value)" % (fn, kind, describe_operand(b, c.args[1]).replace("()", "")))
            if n < 3:
                raise AnchorMissing("hosted %s downlink: expected at least 3 sites that set dl_state to Unlinked/Stopped (next_event x2, connect), found %d" % (kind, n))

    with ctx.rule("C08.R8", "T10", "client downlinks: the session state follows the notifications (transition table per notification and current state)", floor=8) as r:
        EXPECT = {
            "value": {("Linked", None, "Linked"), ("Synced", "Linked", "Synced"), ("Event", "Linked", "Linked"), ("Event", "Synced", "Synced"), ("Unlinked", None, "Unlinked")},
            "map": {("Linked", None, "Linked"), ("Synced", "Linked", "Synced"), ("Unlinked", None, "Unlinked")},
        }
        for kind, want in sorted(EXPECT.items()):
            b = ctx.saw(dl.fn(suffix="task::%s::on_read::{closure#0}" % kind))
            got = set()
            for i, j, p_, rv, line in b.assigns():
                if rv[0] == "agg" and "adt" in rv[1] and rv[1]["adt"].endswith("task::%s::State" % kind):
                    g = dom_guards(b, i)
                    note = [l for d, l, _ in g if d == "disc(notification)"]
                    cur = [l for d, l, _ in g if d == "disc(state)"]
                    if not note:
                        continue
                    if cur and cur[-1] == rv[1]["variant"] and not rv[2]:
                        continue  # `X => X`: the state is written back unchanged (an explicit arm instead of a wildcard)
                    got.add((note[-1], cur[-1] if cur else None, rv[1]["variant"]))
            # a transition guarded by the current state matches an expectation that does not care about it
            def matches(t, w):
                return t[0] == w[0] and t[2] == w[2] and (w[1] is None or t[1] == w[1])
            for w in sorted(want, key=str):
                r.check(any(matches(t, w) for t in got), "client-%s/%s%s->%s" % (kind, w[0], ("@" + w[1]) if w[1] else "", w[2]), where(b),
                        "on %s%s the state becomes %s" % (w[0], (" while " + w[1]) if w[1] else "", w[2]),
                        "on %s%s the client %s downlink no longer moves to %s (transitions found: %s)" % (w[0], (" while " + w[1]) if w[1] else "", kind, w[2], sorted(got, key=str)))
            for t in sorted(got, key=str):
                r.check(any(matches(t, w) for w in want), "client-%s/no-other-transition/%s%s->%s" % (kind, t[0], ("@" + t[1]) if t[1] else "", t[2]), where(b), "a documented transition",
                        "on %s (state %s) the client %s downlink moves to %s: e.g. an event must not make an unsynced downlink Synced, and Linked must not keep the old session's state" % (t[0], t[1], kind, t[2]))
            # a new session starts empty
            for i, j, p_, rv, line in b.assigns():
                if rv[0] == "agg" and "adt" in rv[1] and rv[1]["adt"].endswith("task::%s::State" % kind) and rv[1]["variant"] == "Linked":
                    g = dom_guards(b, i)
                    if any(d == "disc(notification)" and l == "Linked" for d, l, _ in g):
                        d_ = describe_rvalue(b, rv)
                        r.check("None" in d_ or "new()" in d_ or "default()" in d_, "client-%s/Linked/starts-empty" % kind, b.loc(line), "a new session starts from an empty state (%s)" % d_[:50],
                                "a linked notification keeps state from the previous session: %s" % d_[:80])

