#!/usr/bin/env python3
"""Freeze the parameter roles of every function the facts cover: engine/param_table.json maps crate -> defpath -> [[name, type] per parameter].

The rule packs talk about parameters by the names they have today (`senders`, `buffer`, ...). Reading those names from the debug information of the tree
under analysis would make every rule depend on them: renaming a parameter - which changes no behaviour - would raise `anchor vanished`. Instead the
*position and type* of a parameter identify it, and the name the rules use is the one frozen here. mirlib applies an entry when the arity and the type
at that position still agree; otherwise (a parameter was added, removed or moved) it falls back to the name in the debug information.

Regenerate (after reading the diff) when signatures change on purpose:   python3 engine/gen_param_table.py
"""
import json
import os
import sys

sys.path.insert(0, os.path.dirname(os.path.abspath(__file__)))
import extract
from mirlib import Facts, norm_ty

OUT = os.path.join(os.path.dirname(os.path.abspath(__file__)), "param_table.json")


def main():
    extract.extract("default") if hasattr(extract, "extract") and not os.path.isdir(extract.facts_dir("default")) else None
    facts = Facts(extract.facts_dir("default"))
    table = {}
    n = 0
    for cn in sorted(facts.crates()):
        cr = facts.crate(cn)
        ent = {}
        for b in cr.all_bodies():
            argc = b.raw["argc"]
            names = {}
            for nm, p in b.raw["vars"]:
                if not p[1] and 1 <= p[0] <= argc and nm != "_task_context":
                    names[p[0]] = nm
            if not [v for v in names.values() if v != "self"] or "::tests::" in b.defpath or "::test::" in b.defpath or b.defpath.endswith("::tests"):
                continue
            ent[b.defpath] = [[names.get(i), norm_ty(b.locals[i])] for i in range(1, argc + 1)]
            n += 1
        if ent:
            table[cn] = ent
    known = {}
    for cn in sorted(facts.crates()):
        cr = facts.crate(cn)
        known[cn] = sorted({b["def"] for b in cr.index if "promoted" not in b})
    with open(os.path.join(os.path.dirname(OUT), "known_fns.json"), "w") as f:
        f.write("{\n")
        for ci, cn in enumerate(sorted(known)):
            f.write(" %s: [\n" % json.dumps(cn))
            for di, dp in enumerate(known[cn]):
                f.write("  %s%s\n" % (json.dumps(dp), "," if di + 1 < len(known[cn]) else ""))
            f.write(" ]%s\n" % ("," if ci + 1 < len(known) else ""))
        f.write("}\n")
    print("known_fns: %d functions" % sum(len(v) for v in known.values()))
    with open(OUT, "w") as f:
        # one function per line: diffs of the frozen table stay readable
        f.write("{\n")
        for ci, cn in enumerate(sorted(table)):
            f.write(" %s: {\n" % json.dumps(cn))
            ent = table[cn]
            for di, dp in enumerate(sorted(ent)):
                f.write("  %s: %s%s\n" % (json.dumps(dp), json.dumps(ent[dp], separators=(",", ":")), "," if di + 1 < len(ent) else ""))
            f.write(" }%s\n" % ("," if ci + 1 < len(table) else ""))
        f.write("}\n")
    print("param_table: %d functions in %d crates -> %s (%d KB)" % (n, len(table), OUT, os.path.getsize(OUT) // 1024))


if __name__ == "__main__":
    main()
