"""Rule framework: instances, floors, known findings, evidence, verdict lines."""
import hashlib
import json
import os
import sys
import time
import traceback

from mirlib import AnchorMissing, Facts, Program

VERIF = os.path.dirname(os.path.dirname(os.path.abspath(__file__)))
EVIDENCE_DIR = os.environ.get("SWIMVERIFY_EVIDENCE_DIR", os.path.join(VERIF, "evidence"))


class Rule:
    def __init__(self, ctx, rid, template, desc, floor):
        self.ctx = ctx
        self.id = rid
        self.template = template
        self.desc = desc
        self.floor = floor
        self.instances = []

    def _add(self, verdict, key, where, detail, extra=None):
        rec = {"rule": self.id, "key": "%s/%s/%s" % (self.ctx.prop, self.id, key), "where": where,
               "verdict": verdict, "detail": detail}
        if extra:
            rec.update(extra)
        self.instances.append(rec)
        return rec

    def ok(self, key, where, detail, **extra):
        return self._add("ok", key, where, detail, extra)

    def bad(self, key, where, detail, **extra):
        return self._add("violation", key, where, detail, extra)

    def check(self, cond, key, where, detail_ok, detail_bad=None, **extra):
        if cond:
            return self.ok(key, where, detail_ok, **extra)
        return self.bad(key, where, detail_bad or ("NOT: " + detail_ok), **extra)

    def __enter__(self):
        return self

    def __exit__(self, et, ev, tb):
        if et is not None and issubclass(et, AnchorMissing):
            self.bad("anchor", "-", "anchor vanished: %s (the rule can no longer see the construct it guards)" % ev)
            return True
        if et is not None and issubclass(et, Exception):
            # a rule that crashes is broken, not passing: surface as a violation with the trace
            self.bad("internal", "-", "rule crashed: %s" % "".join(traceback.format_exception(et, ev, tb))[-1500:])
            return True
        return False

    def finish(self):
        n = len([i for i in self.instances if not i["key"].endswith("/floor")])
        if n < self.floor:
            self.bad("floor", "-", "only %d instances evaluated, floor is %d: the rule would pass vacuously" % (n, self.floor))


class Ctx:
    def __init__(self, prop, tier, facts_dirs):
        self.prop = prop
        self.tier = tier
        self.facts_dirs = facts_dirs
        self.facts = Facts(facts_dirs["default"])
        self.alt = {k: Facts(v) for k, v in facts_dirs.items() if k != "default"}
        self.rules = []
        self.depth = 3 if tier == "quick" else 6
        self.notes = []
        self.functions = set()
        self._progs = {}

    def crate(self, name, config="default"):
        f = self.facts if config == "default" else self.alt[config]
        return f.crate(name)

    def program(self, *crates):
        key = tuple(crates)
        if key not in self._progs:
            self._progs[key] = Program(self.facts, crates)
        return self._progs[key]

    def rule(self, rid, template, desc, floor=1):
        r = Rule(self, rid, template, desc, floor)
        self.rules.append(r)
        return r

    def saw(self, body):
        self.functions.add(body.defpath)
        return body

    def borrow(self, pack, mapping):
        """Evaluate rules of another pack as rules of this property: `mapping` = {their rule id: (our rule id, description or None)}. The other pack's
        run() is executed against a view of this context in which only the mapped rules record anything. Used where one mechanism is a necessary
        condition of two properties (e.g. the incremental Recon parser for C09 and for every decoder of C10 built on it)."""
        outer = self

        class _Null(Rule):
            def _add(self, verdict, key, where, detail, extra=None):
                return {}

            def finish(self):
                return None

        class _View:
            def __getattr__(self, nm):
                return getattr(outer, nm)

            def rule(self, rid, template, desc, floor=1):
                if rid in mapping:
                    ours, d2 = mapping[rid]
                    r = Rule(outer, ours, template, d2 or desc, floor)
                    outer.rules.append(r)
                    return r
                return _Null(outer, rid, template, desc, 0)

            def saw(self, body):
                return body

            def borrow(self, pack, mapping):
                return None
        pack.run(_View())


def load_known():
    p = os.path.join(VERIF, "known_findings.json")
    if not os.path.isfile(p):
        return {"known": [], "fixed": []}
    with open(p) as f:
        return json.load(f)


def run_property(prop, module, tier, facts_dirs, digest, t0):
    ctx = Ctx(prop, tier, facts_dirs)
    crashed = None
    try:
        module.run(ctx)
    except AnchorMissing as e:
        with ctx.rule(prop + ".anchors", "-", "anchors", 0) as r:
            r.bad("anchor", "-", "anchor vanished: %s" % e)
    except Exception:
        crashed = traceback.format_exc()
        with ctx.rule(prop + ".internal", "-", "internal", 0) as r:
            r.bad("internal", "-", "rule pack crashed: %s" % crashed[-2000:])
    for r in ctx.rules:
        r.finish()
    instances = [i for r in ctx.rules for i in r.instances]
    known = load_known()
    known_keys = {k["key"]: k for k in known.get("known", []) if k.get("property") == prop}
    violations = [i for i in instances if i["verdict"] == "violation"]
    new = [v for v in violations if v["key"] not in known_keys]
    listed = [v for v in violations if v["key"] in known_keys]
    out = []
    for v in listed:
        out.append("KNOWN-FINDING: property=%s %s %s" % (prop, v["key"], known_keys[v["key"]].get("what", v["detail"])))
        v["verdict"] = "known-finding"
    replay_dir = os.path.join(EVIDENCE_DIR, "replay")
    for v in new:
        os.makedirs(replay_dir, exist_ok=True)
        h = hashlib.sha256(v["key"].encode()).hexdigest()[:12]
        rp = os.path.join(replay_dir, "%s-%s.json" % (prop, h))
        with open(rp, "w") as f:
            json.dump({"property": prop, "violation": v, "facts_digest": digest, "tier": tier}, f, indent=1)
        out.append("VIOLATION property=%s replay=%s" % (prop, rp))
        out.append("  %s at %s: %s" % (v["key"], v["where"], v["detail"]))
    ok_n = len([i for i in instances if i["verdict"] == "ok"])
    distinct = len({i["key"] for i in instances if i["verdict"] in ("ok", "known-finding")})
    meta = getattr(module, "META", {})
    samples = []
    per_rule = {}
    for r in ctx.rules:
        per_rule[r.id] = {"template": r.template, "decides": r.desc, "instances": len(r.instances), "floor": r.floor,
                          "violations": len([i for i in r.instances if i["verdict"] == "violation"])}
        samples.extend(r.instances[:3])
    ev = {
        "property_id": prop,
        "tier": tier,
        "seed": int(os.environ.get("VERIF_SEED", "0") or 0),
        "level": "other",
        "coverage": {
            "explanation": meta.get("explanation", "static rules over the MIR of /repo's current tree; see DESIGN.md section 4"),
            "obligations": len(instances),
            "discharged": ok_n,
            "evaluations": len(instances),
            "distinct_nontrivial": distinct,
            "rule": "one evaluation per rule instance (a function/construct/table cell the rule applies to); "
                    "distinct = distinct instance keys (property/rule/function/construct) that were actually evaluated",
            "samples": samples[:40],
            "rules": per_rule,
            "functions_analysed": sorted(ctx.functions),
            "configs": sorted(facts_dirs.keys()),
            "facts_digest": digest,
            "does_not_decide": meta.get("does_not_decide", ""),
            "known_findings_reported": [v["key"] for v in listed],
            "exhaustive": False,
        },
        "assumptions": meta.get("assumptions", []) + [
            "rustc's MIR construction (mir_promoted, -Zmir-opt-level=0) and Instance::try_resolve are faithful to the program",
            "unwind (panic) edges are not followed by path rules",
            "allow-list reasons in the rule tables are correct (each was confirmed by reading)",
        ],
        "wall_s": round(time.time() - t0, 2),
        "violations": len(new),
    }
    os.makedirs(EVIDENCE_DIR, exist_ok=True)
    with open(os.path.join(EVIDENCE_DIR, prop + ".json"), "w") as f:
        json.dump(ev, f, indent=1)
    summary = "%s [%s] rules=%d instances=%d ok=%d known=%d violations=%d functions=%d wall=%.1fs" % (
        prop, tier, len(ctx.rules), len(instances), ok_n, len(listed), len(new), len(ctx.functions), time.time() - t0)
    return out, summary, len(new), instances
