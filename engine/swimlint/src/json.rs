// Minimal JSON value + writer (the driver has no Cargo dependencies).

#[derive(Clone)]
pub enum J {
    Null,
    Bool(bool),
    Int(i128),
    Str(String),
    Arr(Vec<J>),
    Obj(Vec<(String, J)>),
}

impl J {
    pub fn s(s: String) -> J {
        J::Str(s)
    }
    pub fn obj() -> J {
        J::Obj(Vec::new())
    }
    pub fn set(&mut self, k: &str, v: J) {
        if let J::Obj(items) = self {
            if let Some(slot) = items.iter_mut().find(|(n, _)| n == k) {
                slot.1 = v;
            } else {
                items.push((k.to_string(), v));
            }
        }
    }
    pub fn get(&self, k: &str) -> Option<&J> {
        if let J::Obj(items) = self {
            items.iter().find(|(n, _)| n == k).map(|(_, v)| v)
        } else {
            None
        }
    }
    pub fn write(&self, out: &mut String) {
        match self {
            J::Null => out.push_str("null"),
            J::Bool(b) => out.push_str(if *b { "true" } else { "false" }),
            J::Int(i) => {
                // JSON numbers beyond 2^63 are awkward for some readers; emit as string then.
                if *i > i64::MAX as i128 || *i < i64::MIN as i128 {
                    out.push('"');
                    out.push_str(&i.to_string());
                    out.push('"');
                } else {
                    out.push_str(&i.to_string());
                }
            }
            J::Str(s) => write_str(s, out),
            J::Arr(a) => {
                out.push('[');
                for (i, v) in a.iter().enumerate() {
                    if i > 0 {
                        out.push(',');
                    }
                    v.write(out);
                }
                out.push(']');
            }
            J::Obj(o) => {
                out.push('{');
                for (i, (k, v)) in o.iter().enumerate() {
                    if i > 0 {
                        out.push(',');
                    }
                    write_str(k, out);
                    out.push(':');
                    v.write(out);
                }
                out.push('}');
            }
        }
    }
}

fn write_str(s: &str, out: &mut String) {
    out.push('"');
    for c in s.chars() {
        match c {
            '"' => out.push_str("\\\""),
            '\\' => out.push_str("\\\\"),
            '\n' => out.push_str("\\n"),
            '\r' => out.push_str("\\r"),
            '\t' => out.push_str("\\t"),
            c if (c as u32) < 0x20 => {
                out.push_str(&format!("\\u{:04x}", c as u32));
            }
            c => out.push(c),
        }
    }
    out.push('"');
}
