// swimlint: rustc_private driver that dumps, for every body of a workspace crate, the
// pre-borrowck MIR (`mir_promoted`) with resolved callees, field names, variant names and
// evaluated constants, as JSON lines. It takes no decisions: all rules live in /verif/engine.
//
// Injected with RUSTC_WORKSPACE_WRAPPER; argv[1] is the real rustc path and is dropped.
// Environment:
//   SWIMLINT_OUT     directory for fact files (required; without it the driver is a plain rustc)
//   SWIMLINT_CRATES  optional comma separated list of crate names to dump (default: all)
#![feature(rustc_private)]
#![allow(clippy::all)]

extern crate rustc_abi;
extern crate rustc_data_structures;
extern crate rustc_driver;
extern crate rustc_hir;
extern crate rustc_interface;
extern crate rustc_middle;
extern crate rustc_session;
extern crate rustc_span;

use std::fmt::Write as _;

use rustc_driver::{Callbacks, Compilation};
use rustc_hir::def::DefKind;
use rustc_hir::def_id::{DefId, LocalDefId};
use rustc_interface::interface::Compiler;
use rustc_middle::mir::{
    self, AggregateKind, BasicBlock, Body, Const, ConstValue, Operand, Place, ProjectionElem,
    Rvalue, StatementKind, TerminatorKind, UnwindAction,
};
use rustc_middle::ty::print::{with_crate_prefix, with_no_trimmed_paths, with_no_visible_paths};
use rustc_middle::ty::{self, GenericArgsRef, Instance, Ty, TyCtxt, TypingEnv};
use rustc_span::Span;

mod json;
use json::J;

struct Cb;

impl Callbacks for Cb {
    fn after_expansion<'tcx>(&mut self, _c: &Compiler, tcx: TyCtxt<'tcx>) -> Compilation {
        if let Ok(out) = std::env::var("SWIMLINT_OUT") {
            let name = tcx.crate_name(rustc_hir::def_id::LOCAL_CRATE).to_string();
            let wanted = match std::env::var("SWIMLINT_CRATES") {
                Ok(list) if !list.trim().is_empty() => list.split(',').any(|c| c.trim() == name),
                _ => true,
            };
            let is_build_script = name.starts_with("build_script_");
            if wanted && !is_build_script {
                with_no_visible_paths!(with_crate_prefix!(with_no_trimmed_paths!(dump_crate(tcx, &name, &out))));
            }
        }
        Compilation::Continue
    }
}

fn main() {
    let mut args: Vec<String> = std::env::args().collect();
    if args.len() > 1 && (args[1].ends_with("rustc") || args[1].contains("/rustc")) {
        args.remove(1);
    }
    rustc_driver::run_compiler(&args, &mut Cb);
}

// -------------------------------------------------------------------------------------------

fn clip(mut s: String, n: usize) -> String {
    if s.len() > n {
        let mut k = n;
        while !s.is_char_boundary(k) {
            k -= 1;
        }
        s.truncate(k);
        s.push('…');
    }
    s
}

thread_local! {
    static CRATE_NAME: std::cell::RefCell<String> = std::cell::RefCell::new(String::new());
}

/// Paths are printed with a `crate::` prefix for local items; replace it by the crate's name so
/// that the same item has the same path whichever crate it is seen from.
fn fix(s: String) -> String {
    if !s.contains("crate::") {
        return s;
    }
    CRATE_NAME.with(|n| {
        let n = n.borrow();
        let mut out = String::with_capacity(s.len() + 16);
        let bytes = s.as_bytes();
        let mut i = 0;
        while i < bytes.len() {
            if s[i..].starts_with("crate::") {
                let prev_ident = i > 0 && (bytes[i - 1].is_ascii_alphanumeric() || bytes[i - 1] == b'_');
                if !prev_ident {
                    out.push_str(&n);
                    out.push_str("::");
                    i += 7;
                    continue;
                }
            }
            let ch = s[i..].chars().next().unwrap();
            out.push(ch);
            i += ch.len_utf8();
        }
        out
    })
}

fn ty_str<'tcx>(ty: Ty<'tcx>) -> String {
    clip(fix(ty.to_string()), 400)
}

fn dps(tcx: TyCtxt<'_>, did: DefId) -> String {
    fix(tcx.def_path_str(did))
}

fn span_loc(tcx: TyCtxt<'_>, sp: Span) -> (String, usize, usize) {
    let sm = tcx.sess.source_map();
    // Use the call-site of macro expansions so that lines refer to the user's file.
    let sp = sp.source_callsite();
    let lo = sm.lookup_char_pos(sp.lo());
    let hi = sm.lookup_char_pos(sp.hi());
    let file = match &lo.file.name {
        rustc_span::FileName::Real(r) => match r.local_path() {
            Some(p) => p.to_string_lossy().to_string(),
            None => format!("{:?}", r),
        },
        other => format!("{:?}", other),
    };
    (file, lo.line, hi.line)
}

fn line_of(tcx: TyCtxt<'_>, sp: Span) -> usize {
    let sm = tcx.sess.source_map();
    sm.lookup_char_pos(sp.source_callsite().lo()).line
}

/// Structured description of a definition: full path, simple name, and for associated items the
/// ADT of the impl's self type and the trait implemented / declaring it.
fn def_info<'tcx>(tcx: TyCtxt<'tcx>, did: DefId) -> J {
    let mut o = J::obj();
    o.set("def", J::s(dps(tcx, did)));
    if let Some(n) = tcx.opt_item_name(did) {
        o.set("name", J::s(n.to_string()));
    }
    o.set("krate", J::s(tcx.crate_name(did.krate).to_string()));
    let kind = tcx.def_kind(did);
    if matches!(kind, DefKind::AssocFn | DefKind::AssocConst { .. } | DefKind::AssocTy) {
        let parent = tcx.parent(did);
        match tcx.def_kind(parent) {
            DefKind::Impl { of_trait } => {
                let self_ty = tcx.type_of(parent).instantiate_identity().skip_normalization();
                #[allow(unused_mut)]
                let mut self_ty = self_ty;
                o.set("self_ty", J::s(ty_str(self_ty)));
                if let ty::Adt(adt, _) = self_ty.kind() {
                    o.set("self_adt", J::s(dps(tcx, adt.did())));
                }
                if of_trait {
                    let tr = tcx.impl_trait_ref(parent);
                    let tr = tr.instantiate_identity().skip_normalization();
                    o.set("trait", J::s(dps(tcx, tr.def_id)));
                }
            }
            DefKind::Trait => {
                o.set("trait", J::s(dps(tcx, parent)));
                o.set("trait_decl", J::Bool(true));
            }
            _ => {}
        }
    }
    o
}

fn closure_parent<'tcx>(tcx: TyCtxt<'tcx>, mut did: DefId) -> DefId {
    while matches!(tcx.def_kind(did), DefKind::Closure | DefKind::InlineConst | DefKind::SyntheticCoroutineBody) {
        did = tcx.parent(did);
    }
    did
}

struct Cx<'a, 'tcx> {
    tcx: TyCtxt<'tcx>,
    body: &'a Body<'tcx>,
    env: TypingEnv<'tcx>,
}

impl<'a, 'tcx> Cx<'a, 'tcx> {
    fn place(&self, p: &Place<'tcx>) -> J {
        let mut projs = Vec::new();
        let mut pty = mir::PlaceTy::from_ty(self.body.local_decls[p.local].ty);
        for elem in p.projection.iter() {
            let j = match elem {
                ProjectionElem::Deref => J::s("*".into()),
                ProjectionElem::Field(f, _) => {
                    let mut a = vec![J::s("f".into()), J::Int(f.index() as i128)];
                    match pty.ty.kind() {
                        ty::Adt(adt, _) => {
                            let v = pty.variant_index.unwrap_or(rustc_abi::FIRST_VARIANT);
                            let var = adt.variant(v);
                            let fname = var
                                .fields
                                .get(f)
                                .map(|fd| fd.name.to_string())
                                .unwrap_or_else(|| f.index().to_string());
                            a.push(J::s(fname));
                            a.push(J::s(dps(self.tcx, adt.did())));
                            if adt.is_enum() {
                                a.push(J::s(var.name.to_string()));
                            }
                        }
                        ty::Closure(did, _) | ty::Coroutine(did, _) | ty::CoroutineClosure(did, _) => {
                            a.push(J::s(format!("upvar{}", f.index())));
                            a.push(J::s(dps(self.tcx, *did)));
                        }
                        _ => {
                            a.push(J::s(f.index().to_string()));
                        }
                    }
                    J::Arr(a)
                }
                ProjectionElem::Downcast(name, idx) => J::Arr(vec![
                    J::s("d".into()),
                    J::s(name.map(|n| n.to_string()).unwrap_or_default()),
                    J::Int(idx.index() as i128),
                ]),
                ProjectionElem::Index(l) => J::Arr(vec![J::s("i".into()), J::Int(l.index() as i128)]),
                ProjectionElem::ConstantIndex { offset, from_end, .. } => J::Arr(vec![
                    J::s("ci".into()),
                    J::Int(offset as i128),
                    J::Bool(from_end),
                ]),
                other => J::Arr(vec![J::s("o".into()), J::s(format!("{:?}", other))]),
            };
            projs.push(j);
            pty = pty.projection_ty(self.tcx, elem);
        }
        J::Arr(vec![J::Int(p.local.index() as i128), J::Arr(projs)])
    }

    fn konst(&self, c: &mir::ConstOperand<'tcx>) -> J {
        let tcx = self.tcx;
        let ty = c.const_.ty();
        let mut o = J::obj();
        o.set("ty", J::s(ty_str(ty)));
        match ty.kind() {
            ty::FnDef(did, args) => {
                o.set("fn", self.callee(*did, args));
                return o;
            }
            _ => {}
        }
        if let Const::Unevaluated(uv, _) = c.const_ {
            if let Some(p) = uv.promoted {
                o.set("promoted", J::Int(p.index() as i128));
                return o;
            }
            o.set("item", J::s(dps(tcx, uv.def)));
        }
        if let Some(si) = c.const_.try_eval_scalar_int(tcx, self.env) {
            let size = si.size();
            let bits = si.to_bits(size);
            let v: i128 = match ty.kind() {
                ty::Int(_) => size.sign_extend(bits) as i128,
                _ => bits as i128,
            };
            o.set("v", J::Int(v));
            if ty.is_bool() {
                o.set("b", J::Bool(bits != 0));
            }
            if let ty::Char = ty.kind() {
                if let Some(ch) = char::from_u32(bits as u32) {
                    o.set("ch", J::s(ch.to_string()));
                }
            }
            if let ty::Float(_) = ty.kind() {
                let f = if size.bytes() == 8 { f64::from_bits(bits as u64) } else { f32::from_bits(bits as u32) as f64 };
                o.set("f", J::s(format!("{:?}", f)));
            }
            return o;
        }
        // Slices / references to allocations: strings and byte strings.
        if let Ok(val) = c.const_.eval(tcx, self.env, c.span) {
            if let Some(bytes) = const_bytes(tcx, val, ty) {
                match std::str::from_utf8(&bytes) {
                    Ok(s) => o.set("str", J::s(s.to_string())),
                    Err(_) => {}
                }
                o.set("bytes", J::Arr(bytes.iter().map(|b| J::Int(*b as i128)).collect()));
                return o;
            }
            if matches!(val, ConstValue::ZeroSized) {
                o.set("zst", J::Bool(true));
                return o;
            }
        }
        o.set("dbg", J::s(clip(format!("{:?}", c.const_), 200)));
        o
    }

    fn operand(&self, op: &Operand<'tcx>) -> J {
        match op {
            Operand::Copy(p) => J::Arr(vec![J::s("c".into()), self.place(p)]),
            Operand::Move(p) => J::Arr(vec![J::s("m".into()), self.place(p)]),
            Operand::Constant(c) => J::Arr(vec![J::s("k".into()), self.konst(c)]),
            #[allow(unreachable_patterns)]
            other => J::Arr(vec![J::s("o".into()), J::s(format!("{:?}", other))]),
        }
    }

    fn callee(&self, did: DefId, args: GenericArgsRef<'tcx>) -> J {
        let tcx = self.tcx;
        let mut o;
        let resolved = Instance::try_resolve(tcx, self.env, did, args).ok().flatten();
        match resolved {
            Some(inst) => {
                let rdid = inst.def_id();
                o = def_info(tcx, rdid);
                o.set("resolved", J::Bool(true));
                match inst.def {
                    ty::InstanceKind::Item(_) => {}
                    ref other => {
                        o.set("shim", J::s(clip(format!("{:?}", other), 120)));
                    }
                }
                if rdid != did {
                    // Resolved through a trait: remember which trait item was named.
                    let d = def_info(tcx, did);
                    o.set("via", d);
                }
                if let Some(l) = rdid.as_local() {
                    let _ = l;
                    o.set("local", J::Bool(true));
                }
                // Concrete receiver type for methods.
                if let Some(first) = inst.args.types().next() {
                    o.set("arg0_ty", J::s(ty_str(first)));
                    if let ty::Adt(adt, _) = first.kind() {
                        o.set("arg0_adt", J::s(dps(tcx, adt.did())));
                    }
                }
            }
            None => {
                o = def_info(tcx, did);
                o.set("resolved", J::Bool(false));
                if let Some(first) = args.types().next() {
                    o.set("arg0_ty", J::s(ty_str(first)));
                    if let ty::Adt(adt, _) = first.kind() {
                        o.set("arg0_adt", J::s(dps(tcx, adt.did())));
                    }
                }
            }
        }
        // closures passed as generic args: list their def paths (links closure bodies to the call)
        let mut closures = Vec::new();
        for t in args.types() {
            if let ty::Closure(cd, _) | ty::Coroutine(cd, _) | ty::CoroutineClosure(cd, _) = t.kind() {
                closures.push(J::s(dps(tcx, *cd)));
            }
        }
        if !closures.is_empty() {
            o.set("closure_args", J::Arr(closures));
        }
        o.set("targs", J::s(clip(fix(format!("{:?}", args)), 300)));
        o
    }

    fn rvalue(&self, rv: &Rvalue<'tcx>) -> J {
        let tcx = self.tcx;
        match rv {
            Rvalue::Use(op, ..) => J::Arr(vec![J::s("use".into()), self.operand(op)]),
            Rvalue::Ref(_, bk, p) => J::Arr(vec![
                J::s("ref".into()),
                J::Bool(matches!(bk, mir::BorrowKind::Mut { .. })),
                self.place(p),
            ]),
            Rvalue::RawPtr(_, p) => J::Arr(vec![J::s("rawptr".into()), self.place(p)]),
            Rvalue::CopyForDeref(p) => J::Arr(vec![J::s("use".into()), J::Arr(vec![J::s("c".into()), self.place(p)])]),
            Rvalue::BinaryOp(op, ab) => J::Arr(vec![
                J::s("bin".into()),
                J::s(format!("{:?}", op)),
                self.operand(&ab.0),
                self.operand(&ab.1),
            ]),
            Rvalue::UnaryOp(op, a) => J::Arr(vec![J::s("un".into()), J::s(format!("{:?}", op)), self.operand(a)]),
            Rvalue::Cast(kind, op, ty) => J::Arr(vec![
                J::s("cast".into()),
                J::s(clip(format!("{:?}", kind), 60)),
                self.operand(op),
                J::s(ty_str(*ty)),
            ]),
            Rvalue::Discriminant(p) => {
                let mut v = vec![J::s("disc".into()), self.place(p)];
                let pty = p.ty(&self.body.local_decls, tcx).ty;
                if let ty::Adt(adt, _) = pty.kind() {
                    if adt.is_enum() {
                        v.push(J::s(dps(tcx, adt.did())));
                        let mut names = Vec::new();
                        for (vi, var) in adt.variants().iter_enumerated() {
                            let d = adt.discriminant_for_variant(tcx, vi);
                            names.push(J::Arr(vec![J::Int(d.val as i128), J::s(var.name.to_string())]));
                        }
                        v.push(J::Arr(names));
                    }
                }
                J::Arr(v)
            }
            Rvalue::Repeat(op, _) => J::Arr(vec![J::s("repeat".into()), self.operand(op)]),
            Rvalue::Aggregate(kind, ops) => {
                let mut o = J::obj();
                match &**kind {
                    AggregateKind::Adt(did, vidx, _, _, _) => {
                        let adt = tcx.adt_def(*did);
                        o.set("adt", J::s(dps(tcx, *did)));
                        let var = adt.variant(*vidx);
                        o.set("variant", J::s(var.name.to_string()));
                        o.set("vidx", J::Int(vidx.index() as i128));
                        o.set(
                            "fields",
                            J::Arr(var.fields.iter().map(|f| J::s(f.name.to_string())).collect()),
                        );
                    }
                    AggregateKind::Tuple => o.set("tuple", J::Bool(true)),
                    AggregateKind::Array(_) => o.set("array", J::Bool(true)),
                    AggregateKind::Closure(did, _) => o.set("closure", J::s(dps(tcx, *did))),
                    AggregateKind::Coroutine(did, _) => o.set("coroutine", J::s(dps(tcx, *did))),
                    AggregateKind::CoroutineClosure(did, _) => {
                        o.set("coroutine_closure", J::s(dps(tcx, *did)))
                    }
                    other => o.set("other", J::s(format!("{:?}", other))),
                }
                J::Arr(vec![
                    J::s("agg".into()),
                    o,
                    J::Arr(ops.iter().map(|op| self.operand(op)).collect()),
                ])
            }
            other => J::Arr(vec![J::s("other".into()), J::s(clip(format!("{:?}", other), 200))]),
        }
    }

    fn target(&self, bb: BasicBlock) -> J {
        J::Int(bb.index() as i128)
    }

    fn unwind(&self, u: &UnwindAction) -> J {
        match u {
            UnwindAction::Cleanup(bb) => J::Int(bb.index() as i128),
            _ => J::Null,
        }
    }

    fn terminator(&self, t: &mir::Terminator<'tcx>) -> J {
        let tcx = self.tcx;
        let line = line_of(tcx, t.source_info.span);
        let exp = t.source_info.span.from_expansion();
        let mut o = J::obj();
        o.set("line", J::Int(line as i128));
        if exp {
            o.set("exp", J::Bool(true));
        }
        match &t.kind {
            TerminatorKind::Goto { target } => {
                o.set("k", J::s("goto".into()));
                o.set("t", self.target(*target));
            }
            TerminatorKind::SwitchInt { discr, targets } => {
                o.set("k", J::s("switch".into()));
                o.set("discr", self.operand(discr));
                let mut arms = Vec::new();
                for (v, bb) in targets.iter() {
                    arms.push(J::Arr(vec![J::Int(v as i128), self.target(bb)]));
                }
                o.set("arms", J::Arr(arms));
                o.set("otherwise", self.target(targets.otherwise()));
            }
            TerminatorKind::Call { func, args, destination, target, unwind, fn_span, .. } => {
                o.set("k", J::s("call".into()));
                o.set("line", J::Int(line_of(tcx, *fn_span) as i128));
                match func {
                    Operand::Constant(c) => match c.const_.ty().kind() {
                        ty::FnDef(did, gargs) => o.set("callee", self.callee(*did, gargs)),
                        _ => o.set("callee_op", self.operand(func)),
                    },
                    _ => {
                        o.set("callee_op", self.operand(func));
                    }
                }
                o.set("args", J::Arr(args.iter().map(|a| self.operand(&a.node)).collect()));
                o.set("dest", self.place(destination));
                o.set("t", target.map(|b| self.target(b)).unwrap_or(J::Null));
                o.set("u", self.unwind(unwind));
            }
            TerminatorKind::Drop { place, target, unwind, .. } => {
                o.set("k", J::s("drop".into()));
                o.set("place", self.place(place));
                o.set("t", self.target(*target));
                o.set("u", self.unwind(unwind));
            }
            TerminatorKind::Return => o.set("k", J::s("ret".into())),
            TerminatorKind::Unreachable => o.set("k", J::s("unreachable".into())),
            TerminatorKind::UnwindResume => o.set("k", J::s("resume".into())),
            TerminatorKind::UnwindTerminate(_) => o.set("k", J::s("abort".into())),
            TerminatorKind::Yield { value, resume, drop, .. } => {
                o.set("k", J::s("yield".into()));
                o.set("value", self.operand(value));
                o.set("t", self.target(*resume));
                o.set("drop", drop.map(|b| self.target(b)).unwrap_or(J::Null));
            }
            TerminatorKind::Assert { cond, expected, msg, target, unwind } => {
                o.set("k", J::s("assert".into()));
                o.set("cond", self.operand(cond));
                o.set("expected", J::Bool(*expected));
                let m = format!("{:?}", msg);
                let kind = m.split(|c: char| !c.is_alphanumeric()).next().unwrap_or("").to_string();
                o.set("msg", J::s(kind));
                o.set("t", self.target(*target));
                o.set("u", self.unwind(unwind));
            }
            TerminatorKind::FalseEdge { real_target, .. } => {
                o.set("k", J::s("goto".into()));
                o.set("t", self.target(*real_target));
            }
            TerminatorKind::FalseUnwind { real_target, .. } => {
                o.set("k", J::s("goto".into()));
                o.set("t", self.target(*real_target));
            }
            TerminatorKind::CoroutineDrop => o.set("k", J::s("codrop".into())),
            other => {
                o.set("k", J::s("other".into()));
                o.set("dbg", J::s(clip(format!("{:?}", other), 200)));
                let succ: Vec<J> = t.successors().map(|b| self.target(b)).collect();
                o.set("succ", J::Arr(succ));
            }
        }
        o
    }

    fn statement(&self, s: &mir::Statement<'tcx>) -> Option<J> {
        let line = line_of(self.tcx, s.source_info.span);
        match &s.kind {
            StatementKind::Assign(b) => {
                let (p, rv) = &**b;
                Some(J::Arr(vec![J::s("A".into()), self.place(p), self.rvalue(rv), J::Int(line as i128)]))
            }
            StatementKind::SetDiscriminant { place, variant_index } => Some(J::Arr(vec![
                J::s("D".into()),
                self.place(place),
                J::Int(variant_index.index() as i128),
                J::Int(line as i128),
            ])),
            _ => None,
        }
    }
}

fn const_bytes<'tcx>(tcx: TyCtxt<'tcx>, val: ConstValue, ty: Ty<'tcx>) -> Option<Vec<u8>> {
    // &str / &[u8]
    if let ConstValue::Slice { .. } | ConstValue::Indirect { .. } = val {
        let is_bytes = match ty.kind() {
            ty::Ref(_, inner, _) => match inner.kind() {
                ty::Str => true,
                ty::Slice(e) => *e == tcx.types.u8,
                _ => false,
            },
            _ => false,
        };
        if is_bytes {
            if let Some(b) = val.try_get_slice_bytes_for_diagnostics(tcx) {
                return Some(b.to_vec());
            }
        }
        if let ConstValue::Slice { .. } = val {
            return None;
        }
    }
    // &[u8; N]
    if let ty::Ref(_, inner, _) = ty.kind() {
        if let ty::Array(elem, _) = inner.kind() {
            if *elem == tcx.types.u8 {
                if let ConstValue::Scalar(mir::interpret::Scalar::Ptr(ptr, _)) = val {
                    let (prov, off) = ptr.into_raw_parts();
                    let aid = prov.alloc_id();
                    if let Some(rustc_middle::mir::interpret::GlobalAlloc::Memory(alloc)) =
                        tcx.try_get_global_alloc(aid)
                    {
                        let a = alloc.inner();
                        let start = off.bytes() as usize;
                        let all = a.inspect_with_uninit_and_ptr_outside_interpreter(0..a.len());
                        if start <= all.len() {
                            return Some(all[start..].to_vec());
                        }
                    }
                }
            }
        }
    }
    None
}

/// Raw bytes of the allocation behind a `&'static T` constant (plain-data T such as a bit set).
fn const_raw_pointee<'tcx>(tcx: TyCtxt<'tcx>, val: ConstValue, ty: Ty<'tcx>) -> Option<Vec<u8>> {
    if let ty::Ref(_, inner, _) = ty.kind() {
        if matches!(inner.kind(), ty::Adt(..) | ty::Array(..) | ty::Tuple(..)) {
            if let ConstValue::Scalar(mir::interpret::Scalar::Ptr(ptr, _)) = val {
                let (prov, off) = ptr.into_raw_parts();
                let aid = prov.alloc_id();
                if let Some(rustc_middle::mir::interpret::GlobalAlloc::Memory(alloc)) = tcx.try_get_global_alloc(aid) {
                    let a = alloc.inner();
                    if a.provenance().ptrs().is_empty() && a.len() <= 4096 {
                        let start = off.bytes() as usize;
                        let all = a.inspect_with_uninit_and_ptr_outside_interpreter(0..a.len());
                        if start <= all.len() {
                            return Some(all[start..].to_vec());
                        }
                    }
                }
            }
        }
    }
    None
}

fn dump_body<'tcx>(tcx: TyCtxt<'tcx>, ldid: LocalDefId, body: &Body<'tcx>, promoted_of: Option<usize>) -> (J, J) {
    let did = ldid.to_def_id();
    let env = TypingEnv::post_analysis(tcx, did);
    let cx = Cx { tcx, body, env };
    let mut idx = def_info(tcx, did);
    let kind = tcx.def_kind(did);
    idx.set("kind", J::s(format!("{:?}", kind)));
    if let Some(p) = promoted_of {
        idx.set("promoted", J::Int(p as i128));
        let d = format!("{}::{{promoted#{}}}", dps(tcx, did), p);
        idx.set("def", J::s(d));
    }
    let (file, lo, hi) = span_loc(tcx, body.span);
    idx.set("file", J::s(file));
    idx.set("lo", J::Int(lo as i128));
    idx.set("hi", J::Int(hi as i128));
    let owner = closure_parent(tcx, did);
    if owner != did {
        idx.set("owner", def_info(tcx, owner));
    }
    if body.coroutine.is_some() {
        idx.set("coroutine", J::Bool(true));
    }

    let mut b = J::obj();
    b.set("def", idx.get("def").cloned().unwrap_or(J::Null));
    b.set("argc", J::Int(body.arg_count as i128));
    b.set(
        "locals",
        J::Arr(body.local_decls.iter().map(|d| J::s(clip(fix(d.ty.to_string()), 200))).collect()),
    );
    let mut vars = Vec::new();
    for v in body.var_debug_info.iter() {
        if let mir::VarDebugInfoContents::Place(p) = &v.value {
            vars.push(J::Arr(vec![J::s(v.name.to_string()), cx.place(p)]));
        }
    }
    b.set("vars", J::Arr(vars));
    let mut blocks = Vec::new();
    let mut callees: Vec<J> = Vec::new();
    let mut seen = std::collections::BTreeSet::new();
    for (_bb, data) in body.basic_blocks.iter_enumerated() {
        let mut o = J::obj();
        let stmts: Vec<J> = data.statements.iter().filter_map(|s| cx.statement(s)).collect();
        o.set("s", J::Arr(stmts));
        let term = cx.terminator(data.terminator());
        if let Some(c) = term.get("callee") {
            if let Some(J::Str(d)) = c.get("def") {
                if seen.insert(d.clone()) {
                    callees.push(J::s(d.clone()));
                }
            }
        }
        o.set("t", term);
        if data.is_cleanup {
            o.set("cleanup", J::Bool(true));
        }
        blocks.push(o);
    }
    b.set("blocks", J::Arr(blocks));
    idx.set("callees", J::Arr(callees));
    idx.set("nblocks", J::Int(body.basic_blocks.len() as i128));
    (idx, b)
}

fn dump_crate<'tcx>(tcx: TyCtxt<'tcx>, name: &str, out: &str) {
    CRATE_NAME.with(|n| *n.borrow_mut() = name.to_string());
    let mut bodies = String::new();
    let mut index: Vec<J> = Vec::new();
    let owners: Vec<LocalDefId> = tcx.hir_body_owners().collect();
    // Phase 1: clone every body before anything is const-evaluated. Evaluating a constant that
    // calls a local `const fn` runs borrowck on that fn, which steals its `mir_promoted`.
    let mut cloned: Vec<(LocalDefId, Body<'tcx>, Vec<Body<'tcx>>)> = Vec::new();
    let mut stolen: Vec<J> = Vec::new();
    for ldid in owners {
        let did = ldid.to_def_id();
        let kind = tcx.def_kind(did);
        match kind {
            DefKind::Fn | DefKind::AssocFn | DefKind::Closure | DefKind::SyntheticCoroutineBody => {}
            _ => continue,
        }
        if tcx.is_constructor(did) {
            continue;
        }
        let (steal, promoted) = tcx.mir_promoted(ldid);
        if steal.is_stolen() || promoted.is_stolen() {
            stolen.push(J::s(dps(tcx, did)));
            continue;
        }
        let body = steal.borrow().clone();
        let proms: Vec<Body<'tcx>> = promoted.borrow().iter().cloned().collect();
        cloned.push((ldid, body, proms));
    }
    for (ldid, body, proms) in cloned.iter() {
        let ldid = *ldid;
        let (mut idx, b) = dump_body(tcx, ldid, body, None);
        let off = bodies.len();
        b.write(&mut bodies);
        bodies.push('\n');
        idx.set("off", J::Int(off as i128));
        idx.set("len", J::Int((bodies.len() - off) as i128));
        index.push(idx);
        for (pi, pb) in proms.iter().enumerate() {
            let (mut idx, b) = dump_body(tcx, ldid, pb, Some(pi));
            let off = bodies.len();
            b.write(&mut bodies);
            bodies.push('\n');
            idx.set("off", J::Int(off as i128));
            idx.set("len", J::Int((bodies.len() - off) as i128));
            index.push(idx);
        }
    }
    drop(cloned);

    // ADTs, impls, consts.
    let mut adts = Vec::new();
    let mut impls = Vec::new();
    let mut consts = Vec::new();
    for ldid in tcx.hir_crate_items(()).definitions() {
        let did = ldid.to_def_id();
        match tcx.def_kind(did) {
            DefKind::Struct | DefKind::Enum | DefKind::Union => {
                let adt = tcx.adt_def(did);
                let mut o = J::obj();
                o.set("path", J::s(dps(tcx, did)));
                o.set("kind", J::s(format!("{:?}", tcx.def_kind(did))));
                let (file, lo, _) = span_loc(tcx, tcx.def_span(did));
                o.set("file", J::s(file));
                o.set("line", J::Int(lo as i128));
                let mut vars = Vec::new();
                for (vi, v) in adt.variants().iter_enumerated() {
                    let mut vo = J::obj();
                    vo.set("name", J::s(v.name.to_string()));
                    vo.set("idx", J::Int(vi.index() as i128));
                    if adt.is_enum() {
                        let d = adt.discriminant_for_variant(tcx, vi);
                        vo.set("discr", J::Int(d.val as i128));
                    }
                    let mut fs = Vec::new();
                    for f in v.fields.iter() {
                        let fty = tcx.type_of(f.did).instantiate_identity().skip_normalization();
                        #[allow(unused_mut)]
                        let mut fty = fty;
                        fs.push(J::Arr(vec![J::s(f.name.to_string()), J::s(clip(fix(fty.to_string()), 600))]));
                    }
                    vo.set("fields", J::Arr(fs));
                    vars.push(vo);
                }
                o.set("variants", J::Arr(vars));
                adts.push(o);
            }
            DefKind::Impl { of_trait } => {
                let mut o = J::obj();
                let self_ty = tcx.type_of(did).instantiate_identity().skip_normalization();
                #[allow(unused_mut)]
                let mut self_ty = self_ty;
                o.set("self_ty", J::s(ty_str(self_ty)));
                if let ty::Adt(adt, _) = self_ty.kind() {
                    o.set("self_adt", J::s(dps(tcx, adt.did())));
                }
                if of_trait {
                    let tr = tcx.impl_trait_ref(did).instantiate_identity().skip_normalization();
                    o.set("trait", J::s(dps(tcx, tr.def_id)));
                    o.set("trait_ref", J::s(clip(fix(format!("{:?}", tr)), 300)));
                }
                let derived = tcx.is_automatically_derived(did);
                o.set("derived", J::Bool(derived));
                let (file, lo, _) = span_loc(tcx, tcx.def_span(did));
                o.set("file", J::s(file));
                o.set("line", J::Int(lo as i128));
                impls.push(o);
            }
            DefKind::Const { .. } | DefKind::AssocConst { .. } => {
                // only non-generic consts with scalar value
                let generics = tcx.generics_of(did);
                if generics.own_requires_monomorphization() {
                    continue;
                }
                if tcx.def_kind(tcx.parent(did)) == DefKind::Trait {
                    continue;
                }
                let mut o = J::obj();
                o.set("path", J::s(dps(tcx, did)));
                let ty = tcx.type_of(did).instantiate_identity().skip_normalization();
                #[allow(unused_mut)]
                let mut ty = ty;
                o.set("ty", J::s(ty_str(ty)));
                if let Ok(val) = tcx.const_eval_poly(did) {
                    if let Some(si) = val.try_to_scalar_int() {
                        let size = si.size();
                        let bits = si.to_bits(size);
                        let v: i128 = match ty.kind() {
                            ty::Int(_) => size.sign_extend(bits) as i128,
                            _ => bits as i128,
                        };
                        o.set("v", J::Int(v));
                    } else if let Some(b) = const_bytes(tcx, val, ty) {
                        if let Ok(s) = std::str::from_utf8(&b) {
                            o.set("str", J::s(s.to_string()));
                        }
                        o.set("bytes", J::Arr(b.iter().map(|x| J::Int(*x as i128)).collect()));
                    } else if let Some(b) = const_raw_pointee(tcx, val, ty) {
                        o.set("raw", J::Arr(b.iter().map(|x| J::Int(*x as i128)).collect()));
                    } else if let ty::Array(..) = ty.kind() {
                        // an array constant of plain scalars (`const SHIFTS: [usize; 4] = [12, 8, 4, 0]`): its elements
                        if let Some(d) = tcx.try_destructure_mir_constant_for_user_output(val, ty) {
                            let mut es = Vec::new();
                            for (fv, fty) in d.fields.iter() {
                                if let Some(si) = fv.try_to_scalar_int() {
                                    let size = si.size();
                                    let bits = si.to_bits(size);
                                    let v: i128 = match fty.kind() {
                                        ty::Int(_) => size.sign_extend(bits) as i128,
                                        _ => bits as i128,
                                    };
                                    es.push(J::Int(v));
                                } else {
                                    es.push(J::Null);
                                }
                            }
                            o.set("elems", J::Arr(es));
                        }
                    } else if let ty::Adt(adt, _) = ty.kind() {
                        // an enum / struct constant of plain scalars: variant name and scalar fields
                        if let Some(d) = tcx.try_destructure_mir_constant_for_user_output(val, ty) {
                            if let Some(vi) = d.variant {
                                if adt.is_enum() {
                                    o.set("variant", J::s(adt.variant(vi).name.to_string()));
                                }
                            }
                            let mut fs = Vec::new();
                            for (fv, fty) in d.fields.iter() {
                                if let Some(si) = fv.try_to_scalar_int() {
                                    let size = si.size();
                                    let bits = si.to_bits(size);
                                    let v: i128 = match fty.kind() {
                                        ty::Int(_) => size.sign_extend(bits) as i128,
                                        _ => bits as i128,
                                    };
                                    fs.push(J::Int(v));
                                } else {
                                    fs.push(J::Null);
                                }
                            }
                            o.set("fields", J::Arr(fs));
                        }
                    }
                }
                consts.push(o);
            }
            _ => {}
        }
    }

    let mut top = J::obj();
    top.set("crate", J::s(name.to_string()));
    let ctypes: Vec<J> = tcx.crate_types().iter().map(|c| J::s(format!("{:?}", c))).collect();
    top.set("crate_types", J::Arr(ctypes));
    let is_test = tcx.sess.opts.test;
    top.set("test", J::Bool(is_test));
    top.set("bodies", J::Arr(index));
    top.set("stolen", J::Arr(stolen));
    top.set("adts", J::Arr(adts));
    top.set("impls", J::Arr(impls));
    top.set("consts", J::Arr(consts));
    let mut s = String::new();
    top.write(&mut s);

    let mut suffix = String::new();
    if is_test {
        suffix.push_str(".test");
    }
    let _ = write!(suffix, "");
    let base = format!("{}/{}{}", out, name, suffix);
    let _ = std::fs::create_dir_all(out);
    let tmpb = format!("{}.bodies.jsonl.tmp{}", base, std::process::id());
    let tmpi = format!("{}.index.json.tmp{}", base, std::process::id());
    std::fs::write(&tmpb, bodies).expect("swimlint: cannot write bodies");
    std::fs::write(&tmpi, s).expect("swimlint: cannot write index");
    std::fs::rename(&tmpb, format!("{}.bodies.jsonl", base)).expect("rename");
    std::fs::rename(&tmpi, format!("{}.index.json", base)).expect("rename");
}
